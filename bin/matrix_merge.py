#!/usr/bin/env python3
"""usage: matrix_merge.py <tier> <result files...>
Merge `bin/matrix` result files into seeded/matrix-<tier>.raw.txt (a later row for the same
change replaces the earlier one: rows are re-run only where the checks changed), write the
merged file to /var/tmp/rsverif/matrix-<tier>.txt for bin/matrix_report.py."""
import os, re, sys
V = os.path.abspath(os.path.join(os.path.dirname(os.path.abspath(__file__)), ".."))
tier = sys.argv[1]
raw = os.path.join(V, "seeded", "matrix-%s.raw.txt" % tier)
rows = {}
for f in [raw] + sys.argv[2:]:
    if not os.path.exists(f):
        continue
    for l in open(f):
        m = re.match(r"(\S+) (C\d+) rc=(\d+) ", l)
        if m:
            rows[os.path.basename(m.group(1).rstrip("/"))] = l if l.endswith("\n") else l + "\n"
def key(k):
    m = re.match(r"(C\d+)-(r\d)?m(\d+)", k)
    return (m.group(1), int(m.group(2)[1:]) if m.group(2) else 0, int(m.group(3)))
out = "".join(rows[k] for k in sorted(rows, key=key))
open(raw, "w").write(out)
os.makedirs("/var/tmp/rsverif", exist_ok=True)
open("/var/tmp/rsverif/matrix-%s.txt" % tier, "w").write(out)
print(len(rows), "rows")

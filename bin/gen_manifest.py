#!/usr/bin/env python3
"""Regenerate /verif/MANIFEST.json from kani/checks.py (single source of truth)."""
import json, os, sys
V = os.path.abspath(os.path.join(os.path.dirname(os.path.abspath(__file__)), ".."))
sys.path.insert(0, os.path.join(V, "kani"))
import checks as C

ALL = ["C%02d" % i for i in range(1, 20)]
TECH = "bounded model checking of the real rs-store source: Kani 0.68 -> CBMC 6.11 -> CaDiCaL SAT, symbolic inputs, reference-model oracle, native replay of counterexamples"
checks = []
for p in ALL:
    if p not in C.CHECKS:
        continue
    m = C.CHECKS[p]
    e = {
        "property_id": p,
        "quick_cmd": "bin/check %s --tier quick" % p,
        "evidence_file": "/verif/evidence/%s.json" % p,
        "replay_cmd_template": "bin/check --replay {path}",
        "engine": "kani-cbmc",
        "level_claimed": {
            "category": "model_checking",
            "text": m.get("level_text") or ("Bounded model checking of the compiled implementation: within the stated bounds (%s) the SAT solver shows the oracle holds for every value of the symbolic inputs, or returns a counterexample that is re-executed natively before it is reported. Not a proof beyond the bounds." % m.get("bounds", "")),
            "design_ref": "DESIGN.md §5 " + p,
        },
        "level_note": (m.get("level_note") or "") + " Trusted base: Kani/CBMC/CaDiCaL; contract models of crossbeam::channel, rusty_pool and std::thread; stubs for Arc::drop_slow, fmt::format, Instant::{now,elapsed}, Mutex::lock (-> try_lock), the cfg(kani) clock and thread models (hooks H2/H4). Outside the claim: " + m.get("outside", ""),
        "technique": m.get("technique", TECH),
    }
    if m.get("thorough") is not None:
        e["thorough_cmd"] = "bin/check %s --tier thorough" % p
    checks.append(e)
na = [{"property_id": p, "reason": C.NOT_APPLICABLE.get(p, "no solver-based check built (yet) for this property")} for p in ALL if p not in C.CHECKS]
man = {
    "version": 1,
    "setup_cmd": "bin/setup",
    "hooks": {
        "guard": "cfg(kani)",
        "enable": "set by kani-compiler itself (cargo kani passes --cfg=kani); a normal cargo build/test never sees the guarded items",
        "baseline_off_cmd": "cd /repo && cargo test --workspace --no-fail-fast --offline",
        "source_commits": C.HOOK_COMMITS,
        "add_only": True,
    },
    "engines": [
        {
            "name": "kani-cbmc",
            "path": "/verif/bin/check",
            "serves_properties": [c["property_id"] for c in checks],
            "kind_free_text": "symbolic execution of rs-store's compiled MIR by Kani, SAT-based bounded model checking by CBMC; harnesses in /verif/kani/harness, dependency models in /verif/kani/shims, runner in /verif/lib/runner.py",
        }
    ],
    "checks": checks,
    "not_applicable": na,
    "notes": "Every check copies /repo's working tree to a scratch directory, compiles it with kani-compiler together with the harness module (hook H1) and decides each harness with CBMC; exit 0/1/2 = held within bounds / violation reproduced natively / inconclusive. See DESIGN.md.",
}
json.dump(man, open(os.path.join(V, "MANIFEST.json"), "w"), indent=1)
print("MANIFEST.json: %d checks, %d not_applicable" % (len(checks), len(na)))

#!/usr/bin/env python3
"""Turn /var/tmp/rsverif/matrix-<tier>.txt into seeded/MATRIX.md, update seeded/*/meta.json
('detected_by') and the matrix table in DESIGN.md."""
import json, os, re, sys
V = os.path.abspath(os.path.join(os.path.dirname(os.path.abspath(__file__)), ".."))
tier = sys.argv[1] if len(sys.argv) > 1 else "quick"
rows = []
for l in open("/var/tmp/rsverif/matrix-%s.txt" % tier):
    m = re.match(r"(\S+) (C\d+) rc=(\d+) (\d+)s fail=\[(.*?)\] inconclusive=(\d+)", l)
    if not m:
        continue
    d, prop, rc, secs, fails, inc = m.groups()
    sid = os.path.basename(d.rstrip("/"))
    rows.append((sid, prop, int(rc), int(secs), [f for f in fails.split(",") if f], int(inc)))
verdict = {0: "MISSED (check passed)", 1: "CAUGHT (VIOLATION, counterexample replayed natively)", 2: "INCONCLUSIVE"}
out = ["# Seeded changes vs. checks (%s tier)\n" % tier,
       "Produced by `bin/matrix %s`: every change under `seeded/` is applied to a scratch clone of /repo and the check of its property is run there (evidence and replays redirected to scratch).\n" % tier,
       "| change | property | result | harnesses whose oracle was refuted | s |", "|---|---|---|---|---|"]
for sid, prop, rc, secs, fails, inc in rows:
    mp = os.path.join(V, "seeded", sid, "meta.json")
    summ = ""
    if os.path.exists(mp):
        meta = json.load(open(mp))
        summ = (meta.get("summary") or "")[:110]
        meta["detection_%s_tier" % tier] = {"result": verdict[rc], "harnesses": fails, "check_exit_code": rc, "wall_s": secs}
        json.dump(meta, open(mp, "w"), indent=1)
    out.append("| %s: %s | %s | %s | %s | %d |" % (sid, summ.replace("|", "/"), prop, verdict[rc], ", ".join(f.split("::")[-1] for f in fails) or "-", secs))
n = len(rows); c = sum(1 for r in rows if r[2] == 1)
out.append("\n%d of %d seeded changes are caught by the %s tier.\n" % (c, n, tier))
open(os.path.join(V, "seeded", "MATRIX-%s.md" % tier), "w").write("\n".join(out))
print("%d/%d caught" % (c, n))

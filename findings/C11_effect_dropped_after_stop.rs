//! Known finding C11, demonstrated against the unmodified crate with real threads:
//! an action accepted (dispatch returned Ok) before stop() is called loses its effect when
//! the reducer reaches its effect phase after stop() has taken the pool.
//! Run: copy to <rs-store>/tests/ and `cargo test --offline --test C11_effect_dropped_after_stop`.
//! The test ASSERTS THE PROPERTY, so it FAILS on the current code (that is the finding).
use rs_store::{DispatchOp, Effect, FnReducer, StoreBuilder};
use std::sync::atomic::{AtomicUsize, Ordering};
use std::sync::{mpsc, Arc, Mutex};
use std::time::Duration;

#[test]
fn effect_of_accepted_action_runs_even_if_stop_is_called_right_after_dispatch() {
    let ran = Arc::new(AtomicUsize::new(0));
    let ran2 = ran.clone();
    // gate: the reducer is held inside action 1 until stop() has been called
    let (gate_tx, gate_rx) = mpsc::channel::<()>();
    let gate_rx = Mutex::new(gate_rx);
    let reducer = FnReducer::from(move |s: &i32, a: &i32| {
        if *a == 1 {
            let _ = gate_rx.lock().unwrap().recv_timeout(Duration::from_secs(2));
            DispatchOp::Dispatch(s + a, None)
        } else {
            let r = ran2.clone();
            DispatchOp::Dispatch(
                s + a,
                Some(Effect::Task(Box::new(move || {
                    r.fetch_add(1, Ordering::SeqCst);
                }))),
            )
        }
    });
    let store = StoreBuilder::new_with_reducer(0, Box::new(reducer)).build().unwrap();
    store.dispatch(1).unwrap(); // reducer parks in action 1
    store.dispatch(2).unwrap(); // accepted before stop(); its reducer returns an effect
    let s2 = store.clone();
    let stopper = std::thread::spawn(move || s2.stop());
    std::thread::sleep(Duration::from_millis(300)); // stop() has closed the queue and taken the pool
    gate_tx.send(()).unwrap();
    stopper.join().unwrap();
    assert_eq!(store.get_state(), 3, "both accepted actions were reduced");
    assert_eq!(ran.load(Ordering::SeqCst), 1, "C11: the effect of the accepted action 2 was never executed");
}

//! Candidate finding C09, demonstrated against the unmodified crate with real threads:
//! `unsubscribe()` of subscriber B returns while the reducer thread is inside subscriber A's
//! `on_notify` for action j (do_notify has already taken its snapshot of the list); B is then
//! still called for action j - after its unsubscribe() returned.
//! Run: copy to <rs-store>/tests/ and `cargo test --offline --test C09_notified_after_unsubscribe_returned`.
//! The test ASSERTS THE PROPERTY, so it FAILS on the current code.
use rs_store::{DispatchOp, FnReducer, StoreBuilder, Subscriber, Subscription};
use std::sync::atomic::{AtomicBool, AtomicUsize, Ordering};
use std::sync::{mpsc, Arc, Mutex};
use std::time::Duration;

struct A {
    entered: Mutex<mpsc::Sender<()>>,
    resume: Mutex<mpsc::Receiver<()>>,
}
impl Subscriber<i32, i32> for A {
    fn on_notify(&self, _s: &i32, _a: &i32) {
        let _ = self.entered.lock().unwrap().send(());
        let _ = self.resume.lock().unwrap().recv_timeout(Duration::from_secs(3));
    }
}
struct B {
    unsubscribed_returned: Arc<AtomicBool>,
    late_calls: Arc<AtomicUsize>,
}
impl Subscriber<i32, i32> for B {
    fn on_notify(&self, _s: &i32, _a: &i32) {
        if self.unsubscribed_returned.load(Ordering::SeqCst) {
            self.late_calls.fetch_add(1, Ordering::SeqCst);
        }
    }
}

#[test]
fn nothing_is_delivered_after_unsubscribe_returned() {
    let reducer = FnReducer::from(|s: &i32, a: &i32| DispatchOp::Dispatch(s + a, None));
    let store = StoreBuilder::new_with_reducer(0, Box::new(reducer)).build().unwrap();
    let (entered_tx, entered_rx) = mpsc::channel();
    let (resume_tx, resume_rx) = mpsc::channel();
    let _ha = store.add_subscriber(Arc::new(A { entered: Mutex::new(entered_tx), resume: Mutex::new(resume_rx) }));
    let flag = Arc::new(AtomicBool::new(false));
    let late = Arc::new(AtomicUsize::new(0));
    let hb: Box<dyn Subscription> = store.add_subscriber(Arc::new(B { unsubscribed_returned: flag.clone(), late_calls: late.clone() }));
    store.dispatch(1).unwrap();
    entered_rx.recv_timeout(Duration::from_secs(3)).expect("reducer thread is inside A.on_notify");
    hb.unsubscribe(); // returns: the subscribers lock is free during the round
    flag.store(true, Ordering::SeqCst);
    resume_tx.send(()).unwrap(); // let the round continue with its snapshot
    store.stop();
    assert_eq!(late.load(Ordering::SeqCst), 0, "C09: B.on_notify was called after B's unsubscribe() had returned");
}

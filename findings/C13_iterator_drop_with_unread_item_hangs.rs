//! Known finding C13, demonstrated against the unmodified crate with real threads:
//! dropping a state iterator while its capacity-1 queue holds an unread pair never returns.
//! Run: copy to <rs-store>/tests/ and `cargo test --offline --test C13_iterator_drop_with_unread_item_hangs`.
//! The test ASSERTS THE PROPERTY (every call returns), so it FAILS on the current code.
use rs_store::{DispatchOp, FnReducer, StoreBuilder, Subscriber};
use std::sync::mpsc;
use std::sync::Arc;
use std::time::Duration;

struct Seen(std::sync::Mutex<mpsc::Sender<()>>);
impl Subscriber<i32, i32> for Seen {
    fn on_notify(&self, _s: &i32, _a: &i32) {
        let _ = self.0.lock().unwrap().send(());
    }
}

#[test]
fn dropping_an_iterator_with_an_unread_item_returns() {
    let reducer = FnReducer::from(|s: &i32, a: &i32| DispatchOp::Dispatch(s + a, None));
    let store = StoreBuilder::new_with_reducer(0, Box::new(reducer)).build().unwrap();
    let it = store.iter();
    // a direct subscriber registered AFTER the iterator tells us the pair has been queued
    let (tx, rx) = mpsc::channel();
    let _sub = store.add_subscriber(Arc::new(Seen(std::sync::Mutex::new(tx))));
    store.dispatch(1).unwrap();
    rx.recv_timeout(Duration::from_secs(2)).expect("notification round finished");
    let (done_tx, done_rx) = mpsc::channel();
    std::thread::spawn(move || {
        drop(it); // never returns on the current code
        let _ = done_tx.send(());
    });
    assert!(
        done_rx.recv_timeout(Duration::from_secs(3)).is_ok(),
        "C13: drop(iterator) with an unread pair did not return within 3 s"
    );
}

"""Registry: which harnesses decide which property in which tier (DESIGN.md §5)."""

COMMON_ASSUMPTIONS = [
    "bounded claim: holds for every value of the symbolic inputs within the stated sizes and unwind bounds; nothing is claimed beyond them",
    "one concrete instantiation: State = St{val:u8,seq:u8}, Action = u8",
    "crossbeam::channel, rusty_pool and std::thread (as used by store_impl.rs) are replaced by contract models (/verif/kani/shims, verif_kani::rt::thread); their internals are outside the claim",
    "Kani stubs: Arc::drop_slow -> no-op (destructors of Arc-held values do not run), fmt::format -> empty string, _print/_eprint -> no-op, Instant::now -> constant",
    "no panics/unwinding in user callbacks (Kani has none); atomics are sequential",
    "CBMC unwinding assertions are on: a too-small loop bound is reported as inconclusive, never as success",
]


def H(name, what="", bounds="", role="decide", **kw):
    d = {"name": name, "what": what, "bounds": bounds, "role": role}
    d.update(kw)
    return d


CHECKS = {
    "C16": {
        "bounds": "sequences of n<=3 (quick) / n<=5 (thorough) notifications with arbitrary states and actions; selector = low 2 bits of the state payload (alphabet of 4 values); Output=u8",
        "outside": "Output types whose PartialEq is not an equivalence; sequences longer than 5 (the step from an arbitrary Some(last) is covered by the second notification of every sequence)",
        "assumptions": [],
        "quick": [
            H("u_selector::u_selector_n3", "real SelectorSubscriber::on_notify x3, all states/actions symbolic; oracle: de-duplicated selected-value stream with causing actions", "n=3, unwind 7"),
            H("u_selector::u_selector_store_n2", "subscription made through StoreImpl::subscribe_with_selector on a store whose initial state is symbolic; the registered subscriber object is notified 2 symbolic (state, action) pairs; first notification must be delivered even if it selects the value of the state at subscription time", "n=2, unwind 7", timeout_s=400),
            H("u_selector::twin_u_selector", "vacuity twin: wrong oracle (fires on every notification) must be refuted", "n=2", role="twin"),
        ],
        "thorough": [
            H("u_selector::u_selector_n5", "same with 5 notifications", "n=5, unwind 7"),
            H("u_selector::u_selector_store_n3", "through subscribe_with_selector, 3 notifications", "n=3, unwind 7", timeout_s=600),
        ],
    },
}

def _gen_builder_names():
    import os, re
    p = os.path.join(os.path.dirname(os.path.abspath(__file__)), "harness", "u_builder_gen.rs")
    return re.findall(r"fn (s\w+)\(\)", open(p).read())


IB = "@builder::verif_kani_in_builder::"
_STEP_OPS = ["name_empty", "name_set", "with_reducer", "with_reducers_0", "with_reducers_2", "add_reducer", "without_reducer", "with_capacity", "with_policy", "with_middleware", "with_middlewares_0", "with_middlewares_2", "add_middleware"]
CHECKS["C17"] = {
    "bounds": "inductive step: ONE setter (13 setter/argument-shape cases) from an ARBITRARY builder record - symbolic capacity (any usize), policy, without_reducer flag and initial state; container shapes (reducers,middlewares) in {(2,1),(0,0),(1,2)}, name empty / non-empty; build(): arbitrary record in 4 shapes; wiring: sequences of <=3 public builder calls with capacity 0..3",
    "outside": "the text of the pool/thread name (formatting is stubbed); containers with more than 3 elements; the lift from one step to call histories of any length is an induction argument in DESIGN.md, not tool-checked",
    "assumptions": ["the step harnesses read and write StoreBuilder's private fields (hook H3); a field added to the builder is left at its StoreBuilder::new default in the arbitrary pre-state"],
    "quick": [H(IB + "step_" + o, "one call of the setter from an arbitrary builder record (3 shapes); every field afterwards equals the record-of-last-settings model", "1 step, 3 shapes, scalars fully symbolic", timeout_s=300) for o in _STEP_OPS]
    + [H(IB + "build_validate_" + x, "build() on an arbitrary record: Err exactly when capacity=0 or name empty or (no reducer and not without_reducer)", "shape " + x, timeout_s=300) for x in "abcd"]
    + [H("u_builder::" + w, "public-API call sequence applied to the real builder, build(), behavioural probes of the built store: queue capacity seen by channel::bounded, policy (which send primitive, what happens on a full queue, Ok/Err of Dispatcher::dispatch), reducer and middleware identity and order through one real do_reduce", "concrete call sequence of 2-3 calls; state/actions symbolic", timeout_s=400)
       for w in ["wire_without_then_cap", "wire_cap_then_without", "wire_reducers_append", "wire_mw_replace", "wire_cap_policy_mw", "wire_policy_last_wins"]]
    + [H("u_builder::twin_u_builder", "vacuity twin: a model that ignores without_reducer() must be refuted", "", role="twin", timeout_s=300)],
    "thorough": [H("u_builder::" + w, "public-API call sequence + behavioural probes", "concrete sequence; data symbolic", timeout_s=400)
       for w in ["wire_reducer_replace", "wire_mw_append", "wire_policy_cap", "wire_name_policy_cap", "wire_cap_last_wins", "wire_name_last_wins"]]
    + [H("u_builder_gen::" + n, "generated: every one- and two-call sequence over the 20-operation alphabet, all probes", "concrete sequence; data symbolic", timeout_s=400) for n in _gen_builder_names()],
}

_CHAN_STEP = [H("u_chan::chan_step_cap%d" % c, "ONE real SenderChannel::send(x) from an arbitrary queue (symbolic length 0..=cap, symbolic items incl. the Exit marker) under a symbolic policy; content, return value, dropped-counter delta and primitive used vs the model; a blocked BlockOnFull send is served by a consumer taking the head; then FIFO drain", "capacity %d, unwind 6" % c, timeout_s=400) for c in (1, 2)]
_CHAN_STEP3 = [H("u_chan::chan_step_cap3", "same, capacity 3", "capacity 3", timeout_s=400)]
_CHAN_BURST = [H("u_chan::chan_burst_%s_cap%d" % (p, c), "burst of cap+2 real sends without consumer (%s): survivors, order, Ok/Err, dropped counter, queue bound" % p, "capacity %d, symbolic actions" % c, timeout_s=300) for p in ("oldest", "latest") for c in (1, 2)]
_CHAN_BURST3 = [H("u_chan::chan_burst_%s_cap3" % p, "burst, capacity 3 (%s)" % p, "capacity 3", timeout_s=300) for p in ("oldest", "latest")]
_CHAN_RACE = [H("u_chan::chan_race_oldest_cap1", "DropOldest send on a full queue with a consumer recv placed at a symbolic scheduling point inside the send (before / between try_send, try_recv, try_send): conservation, order of survivors, never blocks", "capacity 1, 4 placements", timeout_s=300),
              H("u_chan::chan_race_oldest_cap2", "same, capacity 2", "capacity 2", timeout_s=300),
              H("u_chan::chan_race_latest_cap2", "DropLatest send racing the consumer: Err iff discarded and counted", "capacity 2", timeout_s=300)]
_CHAN_RACE3 = [H("u_chan::chan_race_oldest_cap3", "same, capacity 3", "capacity 3", timeout_s=300)]
_CHAN_TWIN = [H("u_chan::twin_u_chan", "vacuity twin: wrong oracles for C02/C05/C06 must each be refuted", "", role="twin", timeout_s=300)]

CHECKS["C06"] = {
    "bounds": "capacity 1..2 (quick) / 1..3 (thorough); one send from an arbitrary queue; bursts of capacity+2; one consumer step at any of the scheduling points inside a send; items symbolic (Action(v) or Exit)",
    "outside": "which action is hit under concurrent consumption (unspecified by the property); more than one consumer step inside one send; crossbeam's internals (modelled)",
    "assumptions": ["context switches only at channel operations (each crossbeam operation is linearizable)"],
    "quick": _CHAN_STEP + _CHAN_BURST + _CHAN_RACE + _CHAN_TWIN,
    "thorough": _CHAN_STEP3 + _CHAN_BURST3 + _CHAN_RACE3,
}
CHECKS["C05"] = {
    "bounds": "capacity 1..2 (quick) / 1..3 (thorough); one send from an arbitrary queue incl. the full queue served by one consumer step",
    "outside": "fairness / latency of the wake-up ('as soon as' is checked as: the send completes after exactly one consumer step); crossbeam's own bound (modelled)",
    "assumptions": [],
    "quick": _CHAN_STEP + _CHAN_TWIN,
    "thorough": _CHAN_STEP3,
}
CHECKS["C02"] = {
    "bounds": "capacity 1..2 (quick) / 1..3 (thorough); FIFO of one send from an arbitrary queue under every policy; order of survivors with a racing consumer",
    "outside": "ordering inside crossbeam (modelled as a linearizable FIFO)",
    "assumptions": [],
    "quick": _CHAN_STEP + _CHAN_RACE + _CHAN_TWIN,
    "thorough": _CHAN_STEP3 + _CHAN_RACE3,
}

def _ph(n, what, bounds, **kw):
    return H("u_phase::" + n, what, bounds, timeout_s=kw.pop("timeout_s", 400), **kw)

_W_RED = "real StoreImpl::do_reduce on a store with scripted reducers/middlewares; symbolic state, action, Dispatch/Keep answers and before_reduce verdicts (4^m assignments in one query); reference model of the hook loop and the reducer chain"
_W_NOT = "real StoreImpl::do_notify with scripted subscribers/middlewares; symbolic state, action, before_dispatch verdicts; every subscriber once, in order, with exactly (state, action); Done suppresses; counters"
_W_EFF = "real StoreImpl::do_effect with effects of concrete kinds, middleware 0 removing a concrete subset, symbolic before_effect verdicts/state/action; one pool submission per remaining effect, none inline, each runs once in a pool context, follow-up actions reach this store's queue"
U_REDUCE_Q = [_ph("u_reduce_r2_m2", _W_RED, "2 reducers, 2 middlewares, no effects", require_covers=["vetoed the action", "BreakChain skipped", "Keep answer occurred"]), _ph("u_reduce_r3_m0", _W_RED, "3 reducers"), _ph("u_reduce_r1_m1_task", _W_RED, "1 reducer attaching a Task effect, 1 middleware"), _ph("u_reduce_r1_m2_action_keep", _W_RED, "1 reducer answering Keep with an Action effect, 2 middlewares"), _ph("u_reduce_r1_m0_thunk", _W_RED, "1 reducer attaching a Thunk")]
U_REDUCE_T = [_ph("u_reduce_r3_m3", _W_RED, "3 reducers, 3 middlewares (4^3 verdict assignments)"), _ph("u_reduce_r1_m1", _W_RED, "1 reducer, 1 middleware"), _ph("u_reduce_r2_m0_eff_b", _W_RED, "2 reducers: Keep+Action, Dispatch+Thunk", timeout_s=900), _ph("u_reduce_r2_m1_eff_a", _W_RED, "2 reducers, first attaches a Task, 1 middleware", timeout_s=1200, mem_gb=24)]
U_NOTIFY_Q = [_ph("u_notify_s2_m2", _W_NOT, "2 subscribers, 2 middlewares", require_covers=["vetoed the notification"]), _ph("u_notify_s3_m0", _W_NOT, "3 subscribers")]
U_NOTIFY_T = [_ph("u_notify_s2_m3", _W_NOT, "2 subscribers, 3 middlewares"), _ph("u_notify_s1_m1", _W_NOT, "1 subscriber, 1 middleware")]
U_EFFECT_Q = [_ph("u_effect_task_thunk_m1", _W_EFF, "Task+Thunk, 1 middleware, nothing removed"), _ph("u_effect_function_action_m1_rm1", _W_EFF, "Function+Action, middleware removes the second"), _ph("u_effect_task_task_m2_rm", _W_EFF, "Task+Task, 2 middlewares, first removes effect 0")]
U_EFFECT_C = [_ph("u_effect_task_thunk_m1_done", _W_EFF, "Task+Thunk, before_effect verdict fixed to DoneAction"), _ph("u_effect_task_thunk_m1_break", _W_EFF, "verdict fixed to BreakChain"), _ph("u_effect_function_action_m1_err", _W_EFF, "verdict fixed to Err")]
U_EFFECT_C2 = [_ph("u_effect_task_task_m2_done_cont", _W_EFF, "2 middlewares: Done then Continue, first removes"), _ph("u_effect_thunk_function_m2_cont_done", _W_EFF, "2 middlewares: Continue then Done")]
U_EFFECT_T = [_ph("u_effect_task_thunk_m1_rm0", _W_EFF, "Task+Thunk, first removed"), _ph("u_effect_action_task_m0", _W_EFF, "Action+Task, no middleware"), _ph("u_effect_thunk_m2_rm", _W_EFF, "Thunk, removed"), _ph("u_effect_function_thunk_m3", _W_EFF, "Function+Thunk, 3 middlewares, second removed"), _ph("u_effect_thunk_function_m2_all", _W_EFF, "Thunk+Function, both removed")]
U_PHASE_TWIN = [_ph("twin_u_phase", "vacuity twin: deliberately wrong oracles for C01/C03/C07/C11/C12/C18 must each be refuted", "", role="twin")]

CHECKS["C12"] = {
    "bounds": "one action; 1..2 (quick) / 1..3 (thorough) middlewares with every assignment of {Continue,Done,Break,Err} to the hook of the phase under test symbolic in one query; 1..3 reducers; 1..3 subscribers; <=2 effects of concrete kinds; state and action symbolic",
    "outside": "whether a vetoed action still notifies subscribers (left unspecified by the property); more than 3 middlewares; effect removal by a middleware other than the first (its execution depends on symbolic Break verdicts; covered for the first)",
    "assumptions": ["the three phases are driven directly (pub(crate) do_reduce/do_effect/do_notify); that the reducer loop calls them in order with the same state is decided by the loop-level harnesses (C01/C07)"],
    "quick": U_REDUCE_Q[:3] + U_NOTIFY_Q[:1] + U_EFFECT_Q + U_EFFECT_C + U_PHASE_TWIN,
    "thorough": U_REDUCE_Q[3:] + U_REDUCE_T + U_NOTIFY_Q[1:] + U_NOTIFY_T + U_EFFECT_T + U_EFFECT_C2,
}

def _g(n, what, bounds, **kw):
    return H("g_glue::" + n, what, bounds, timeout_s=kw.pop("timeout_s", 400), **kw)

_W_G = "REAL reducer loop closure + channel wrapper + dispatch (all three entry points) / close / stop glue, phases do_reduce/do_effect/do_notify replaced by summaries with unconstrained symbolic results (any need_dispatch, any new state); oracle: FIFO, state threading, unconditional write-back before the effect phase, notify iff need, phase order and context, barrier and finality of stop(), counters"
G_FOLD_Q = [_g("g_fold_k2", _W_G, "2 symbolic actions, capacity 3, schedule: dispatch*; stop() (loop runs at the join)"), _g("g_fold_k3", _W_G, "3 symbolic actions, capacity 4, same schedule"), _g("g_fold_k2_close_stop", _W_G, "2 actions; schedule: dispatch*; close(); loop; stop()"), _g("g_fold_k2_close_dispatch_stop", _W_G, "2 actions; close(); dispatch (rejected); stop()")]
G_FOLD_T = [_g("g_fold_k1", _W_G, "1 action")]
G_DROP_Q = [_g("g_fold_k2_drop", _W_G + "; drop(DroppableStore) in place of stop(), other clones kept", "2 actions"), _g("g_fold_k0_drop", _W_G + "; drop of an idle store", "0 actions")]
G_DROP_T = [_g("g_fold_k3_drop", _W_G + "; drop(DroppableStore)", "3 actions")]
G_TWIN = [_g("twin_g_glue", "vacuity twin: deliberately wrong glue oracles must each be refuted", "", role="twin")]

_SEQ_ASSUME = "deferred schedules only in this tier of the loop-level harnesses: client calls are atomic and the reducer loop runs when the joiner waits (dispatch*; stop()) or between close() and stop(); placements of client calls at scheduling points inside the loop are the S- harnesses where registered"
_COMPOSE = "composition (argument, not tool-checked): phases verified against their reference models in the U- harnesses + glue verified with unconstrained phase summaries in the G- harnesses => the property for the real pipeline"

CHECKS["C01"] = {
    "bounds": "reducer chain: 1..3 reducers, one action, symbolic state/action/Dispatch-Keep answers (U-reduce); loop: 1..3 symbolic actions with unconstrained per-action phase results, capacity k+1, all three dispatch entry points (G-fold)",
    "outside": "panicking reducers; chains longer than 3; more than 3 queued actions; drop policies (C06); actions vetoed by middleware (C12)",
    "assumptions": [_SEQ_ASSUME, _COMPOSE],
    "quick": [U_REDUCE_Q[0], U_REDUCE_Q[1]] + G_FOLD_Q[:3] + U_PHASE_TWIN + G_TWIN,
    "thorough": U_REDUCE_Q[2:] + U_REDUCE_T + G_FOLD_T + G_FOLD_Q[3:],
}
CHECKS["C03"] = {
    "bounds": "1..3 direct subscribers, one notification with symbolic (state, action) (U-notify); need_dispatch from the last reducer's Dispatch/Keep (U-reduce); loop calls the notify phase iff need_dispatch with exactly the state just produced, 1..3 actions (G-fold)",
    "outside": "chains mixing Dispatch and Keep for one action (unspecified by the property); more than 3 subscribers; subscribers registered or removed mid-run (C09)",
    "assumptions": [_SEQ_ASSUME, _COMPOSE],
    "quick": U_NOTIFY_Q + [U_REDUCE_Q[0]] + G_FOLD_Q[:2] + U_PHASE_TWIN + G_TWIN,
    "thorough": U_NOTIFY_T + G_FOLD_T + G_FOLD_Q[2:],
}
CHECKS["C04"] = {
    "bounds": "backlog of 0..3 accepted actions at stop(); stop() alone, close() then stop(), close() then dispatch then stop(); afterwards dispatch through StoreImpl::dispatch, Store::dispatch, Dispatcher::dispatch, repeated stop()/close()",
    "outside": "the 3 s timeout path of shutdown_join_timeout (no clock in the model); two racing stop() calls; a dispatch racing with stop() from another thread (needs the S- harnesses); channeled subscribers (C10)",
    "assumptions": [_SEQ_ASSUME, "shutdown_join* is modelled as: request recorded, then the harness runs the loop and every pending pool task before the caller continues"],
    "quick": G_FOLD_Q + G_TWIN,
    "thorough": G_FOLD_T + G_DROP_Q,
}
CHECKS["C07"] = {
    "bounds": "per phase: hooks / reducers / subscribers in registration order and in the reducer context (U-reduce, U-notify, U-effect with <=3 of each); across phases and actions: reduce -> effect -> notify per action, no phase of action j+1 before the last of action j, 1..3 actions (G-fold)",
    "outside": "physical overlap cannot occur in a sequentialised model: what is decided is order, context identity and completeness; components registered at run time from another thread (S- harnesses)",
    "assumptions": [_SEQ_ASSUME, _COMPOSE],
    "quick": [U_REDUCE_Q[0], U_NOTIFY_Q[0], U_EFFECT_Q[0]] + G_FOLD_Q[:2] + U_PHASE_TWIN + G_TWIN,
    "thorough": U_REDUCE_T[:1] + U_NOTIFY_T + G_FOLD_T + G_FOLD_Q[2:],
}
CHECKS["C08"] = {
    "bounds": "get_state() read from inside every phase of every action (summaries read it), 1..3 actions with arbitrary new states: value = state left by the previous action during the reduce phase, = this action's state during effect and notify phases and after stop()",
    "outside": "reader threads running between scheduling points of the loop (S- harnesses); torn reads (excluded by the Mutex)",
    "assumptions": [_SEQ_ASSUME],
    "quick": G_FOLD_Q[:3] + G_TWIN,
    "thorough": G_FOLD_T + G_FOLD_Q[3:],
}
CHECKS["C15"] = {
    "bounds": "drop(DroppableStore::new(store.clone())) with a backlog of 0, 2 (quick) / 3 (thorough) accepted actions and another clone alive: same oracles as C04",
    "outside": "concurrent drops of several DroppableStores over one handle; threads using the clones during the drop",
    "assumptions": [_SEQ_ASSUME],
    "quick": G_DROP_Q + G_TWIN,
    "thorough": G_DROP_T,
}
CHECKS["C18"] = {
    "bounds": "counter deltas of one phase call (U-reduce/U-notify/U-effect: action_reduced, middleware_executed, effect_issued, state_notified, subscriber_notified), of one channel send (action_dropped), and the balance after stop() for 1..3 actions under BlockOnFull (received, dropped, error_occurred)",
    "outside": "time metrics and remaining_queue* (not in the statement); relaxed-memory effects on the atomics; monotonicity sampled concurrently (S- harnesses)",
    "assumptions": [_SEQ_ASSUME],
    "quick": [U_REDUCE_Q[0], U_NOTIFY_Q[0], U_EFFECT_Q[0]] + _CHAN_STEP[:1] + _CHAN_BURST[:2] + G_FOLD_Q[:2] + U_PHASE_TWIN + G_TWIN,
    "thorough": U_REDUCE_T[:1] + U_EFFECT_T[:2] + _CHAN_STEP[1:] + _CHAN_RACE + G_FOLD_Q[2:],
}
# loop-level order for C02, capacity bound for C05
CHECKS["C02"]["quick"] = CHECKS["C02"]["quick"] + G_FOLD_Q[:2] + G_TWIN
CHECKS["C02"]["bounds"] += "; loop takes 1..3 queued actions in dispatch order through all three entry points (G-fold)"
CHECKS["C05"]["quick"] = CHECKS["C05"]["quick"] + G_FOLD_Q[1:2] + G_TWIN

def _us(n, what, bounds, **kw):
    return H("u_subs::" + n, what, bounds, timeout_s=kw.pop("timeout_s", 400), **kw)

_W_SUBS = "real add_subscriber / unsubscribe closure (once, twice) / real do_notify / clear_subscribers or stop(); scripted subscribers; symbolic notification data; on_unsubscribe exactly once, silent after unsubscribe() returned, others unaffected and still in registration order, list empty after shutdown"
U_SUBS_Q = [_us("u_subs_2_first", _W_SUBS, "2 subscribers, the first unsubscribes, release via stop()"), _us("u_subs_3_first", _W_SUBS, "3 subscribers, the first unsubscribes"), _us("u_subs_3_middle", _W_SUBS, "3 subscribers, the middle one unsubscribes, release via stop()")]
U_SUBS_T = [_us("u_subs_2_second", _W_SUBS, "2 subscribers, the second unsubscribes"), _us("u_subs_3_last", _W_SUBS, "3 subscribers, the last unsubscribes")]
U_SUBS_TWIN = [_us("twin_u_subs", "vacuity twin", "", role="twin")]

def _ge(n, what, bounds, **kw):
    return H("g_effects::" + n, what, bounds, timeout_s=kw.pop("timeout_s", 900), **kw)

_W_GE = "REAL loop closure + REAL do_effect + Dispatcher::{dispatch_task,dispatch_thunk}; reduce/notify summarised, the reduce summary returns a symbolic state and one effect of a concrete kind"
G_EFF_S2 = [_ge("g_effects_s2_task", _W_GE + "; schedule dispatch; close(); loop; workers; stop(): effect submitted once, not inline, runs once on a worker before stop() returns", "1 action with a Task effect", mem_gb=16)]
G_EFF_S2_T = [_ge("g_effects_s2_none_task", _W_GE + "; S2 schedule", "2 actions, second with a Task", mem_gb=16), _ge("g_effects_s2_function_thunk", _W_GE + "; S2 schedule", "Function + Thunk effects", mem_gb=32, timeout_s=1800)]
G_EFF_HOST_T = [_ge("g_effects_" + n, _W_GE + "; the reducer loop is the host: when it finds its queue empty the scheduler runs pending workers (effects, follow-up dispatches), then the client's stop()", b, mem_gb=32, timeout_s=2400) for n, b in [("task", "Task"), ("action", "Effect::Action -> follow-up action reduced once, after its producer"), ("thunk", "Thunk dispatching a follow-up"), ("function", "Function"), ("client_tasks", "dispatch_task / dispatch_thunk by a client while the store runs")]]
G_EFF_WITNESS = [_ge("g_effects_backlog_at_stop_witness", "KNOWN-FINDING witness: dispatch(a) accepted; stop(); the loop reaches a's effect phase after stop() took the pool: the effect is silently dropped", "1 action with a Task effect", role="witness", known_finding="C11-effect-dropped-when-effect-phase-runs-after-stop-took-the-pool", timeout_s=400)]
G_EFF_TWIN = [_ge("twin_g_effects", "vacuity twin", "", role="twin", timeout_s=600)]

CHECKS["C09"] = {
    "bounds": "2..3 direct subscribers; unsubscribe of the first / middle / last, once and twice; notifications before and after; release by clear_subscribers() and by stop(); notification data symbolic",
    "outside": "an unsubscribe() landing INSIDE a notification round of the same action (between the subscriber snapshot and the callback): beyond the solver (68 M SAT variables) - this is where the LISTED C09 finding lives (demonstrated with real threads, no solver witness); the thorough tier decides that a subscriber removed during a round does not disturb the others; channeled subscribers' lifecycle is checked under C10; more than 3 subscribers",
    "assumptions": [_SEQ_ASSUME],
    "quick": U_SUBS_Q + U_SUBS_TWIN,
    "thorough": U_SUBS_T,
}
CHECKS["C11"] = {
    "bounds": "effects of every kind (Task, Thunk, Function, Action), <=2 per action, middleware removal of a concrete subset (U-effect); at loop level one effect per action, 1..2 actions, schedules: close-loop-workers-stop (quick) and loop-as-host with workers and the client's stop() scheduled when the loop is idle (thorough)",
    "outside": "PANICKING effects (Kani has no unwinding; the pool's panic recovery is not modelled) - that part of the quantifier is not addressed; slow effects / worker starvation; the 3 s join timeout; Effect::Action whose thunk runs after close() (the property exempts it; the code panics in a worker on expect())",
    "assumptions": [_SEQ_ASSUME, "pool model: every submitted task runs exactly once, on a worker context, before a join returns"],
    "quick": U_EFFECT_Q + U_EFFECT_C[:1] + G_EFF_S2 + G_EFF_WITNESS + U_PHASE_TWIN,
    "not_registered": "g_effects::g_effects_{task,action,thunk,function,client_tasks} (reducer loop as host with workers and stop() scheduled when idle) and g_effects_s2_function_thunk do not finish within 30 min / 32 GB (5.3 M program steps): not registered, nothing is claimed from them",
    "thorough": U_EFFECT_T + U_EFFECT_C[1:] + U_EFFECT_C2 + G_EFF_S2_T[:1],
}

def _g2(n, what, bounds, **kw):
    return H("g_two::" + n, what, bounds, timeout_s=kw.pop("timeout_s", 400), **kw)

_W_TWO = "two REAL stores with equal configuration (same name, same reducer type, one subscriber object registered with both), per-store phase summaries with unconstrained results; dispatches interleaved; one store stopped or dropped while the other has a backlog and keeps accepting; then the other stopped: each store's log, state, acceptance, pool, subscribers and metrics are those of the single-store model"
CHECKS["C19"] = {
    "bounds": "two stores; <=2 actions each plus one late action; stop() or drop(DroppableStore) of one while the other is busy; interleaving at call granularity",
    "outside": "more than two stores; operations on one store placed at scheduling points inside the other's loop; interference through user-supplied shared objects",
    "assumptions": [_SEQ_ASSUME],
    "quick": [_g2("g_two_stop", _W_TWO, "A: 2+1 actions, B: 1 action, B stopped first"), _g2("g_two_drop", _W_TWO, "A: 1+1 actions, B: 2 actions, B dropped through DroppableStore"), _g2("twin_g_two", "vacuity twin", "", role="twin")],
    "thorough": [_g2("g_two_stop_idle_b", _W_TWO, "B idle when stopped")],
}

_W_RACE = "REAL stop()/close()/loop glue with phase summaries; another client thread's dispatch (symbolic action, entry point varied) is run to completion at ONE concrete scheduling point inside stop() (before / after the shutdown marker is enqueued, at the join) or inside the loop run that stop() waits for (before/after each recv, in each phase); the call is skipped where the host holds the sender lock it needs (not enabled there); oracle: Ok => reduced exactly once before stop() returns, Err => never reduced, backlog in order"
_RACE_ALL = ["s_race_b1_close_send", "s_race_b1_close_sent", "s_race_b0_close_sent", "s_race_b1_join", "s_race_b1_loop_recv0", "s_race_b1_loop_taken0", "s_race_b1_loop_reduce", "s_race_b1_loop_effect", "s_race_b1_loop_notify", "s_race_b1_loop_recv1", "s_race_b1_loop_taken1"]
S_RACE = [_g(n, _W_RACE, "backlog %s, placement %s" % (n[8], n[10:]), timeout_s=800) for n in _RACE_ALL]
_W_LOCKS = "lock-discipline probes bound to the model's scheduling points: at every enqueue on the dispatch queue the dispatch_tx lock is held (sends are serialised; nothing can be accepted behind the shutdown marker); at the pool join no store lock (pool, dispatch_tx, subscribers) is held"
G_LOCKS = [_g("g_locks_k3_stop", _W_LOCKS, "3 dispatches through the three entry points, stop()", timeout_s=800), _g("g_locks_k1_close_stop", _W_LOCKS, "close(); stop()", timeout_s=800), _g("g_locks_k1_drop", _W_LOCKS, "drop(DroppableStore)", timeout_s=800)]
CHECKS["C04"]["quick"] = CHECKS["C04"]["quick"] + [S_RACE[1], S_RACE[2], S_RACE[3], S_RACE[7]] + G_LOCKS[:2]
CHECKS["C04"]["thorough"] = CHECKS["C04"]["thorough"] + [x for i, x in enumerate(S_RACE) if i not in (1, 2, 3, 7)] + G_LOCKS[2:]
CHECKS["C04"]["bounds"] += "; a dispatch from another thread placed at each of 11 scheduling points inside stop()/close() and the loop run (one placement per query, K=1)"
CHECKS["C04"]["outside"] = CHECKS["C04"]["outside"].replace("; a dispatch racing with stop() from another thread (needs the S- harnesses)", "; more than one racing call per schedule (K>1); racing calls other than dispatch")
CHECKS["C01"]["quick"] = CHECKS["C01"]["quick"] + [S_RACE[1], S_RACE[2]] + G_LOCKS[:1]
CHECKS["C01"]["thorough"] = CHECKS["C01"]["thorough"] + [S_RACE[0]] + S_RACE[3:]
CHECKS["C02"]["quick"] = CHECKS["C02"]["quick"] + G_LOCKS[:1]
CHECKS["C02"]["thorough"] = CHECKS["C02"]["thorough"] + G_LOCKS[1:] + S_RACE[:3]
CHECKS["C02"]["bounds"] += "; the dispatch_tx lock is held at every enqueue (probe), which with FIFO gives a total order extending program order and real-time order (argument)"

def _ui(n, what, bounds, **kw):
    return H("u_iter::" + n, what, bounds, timeout_s=kw.pop("timeout_s", 600), **kw)

def _gn(n, what, bounds, **kw):
    return H("g_notify::" + n, what, bounds, timeout_s=kw.pop("timeout_s", 900), **kw)

IS = "@store_impl::verif_kani_in_store::"
def _is(n, what, bounds, **kw):
    return H(IS + n, what, bounds, timeout_s=kw.pop("timeout_s", 600), **kw)

_W_IT = "REAL StateIteratorSubscriber::{on_notify,on_unsubscribe} (producer, reducer context) and StateIterator::{next,drop} (consumer) over the real capacity-1 BlockOnFull BackpressureChannel, concretely typed; a producer blocked on the full queue is served by one consumer step; notification data symbolic; oracle: every pair once, in order, then None, then None again; exhausted/dropped iterator unsubscribes"
U_ITER_Q = [_ui("iter_unit_n1", _W_IT, "1 notification"), _ui("iter_unit_n2", _W_IT, "2 notifications (second one blocks until the consumer reads)"), _ui("iter_unit_n3_early", _W_IT, "3 notifications, consumer reads one early"), _ui("iter_unit_drop_fresh", _W_IT, "drop of an unused iterator"), _ui("iter_unit_drop_after_read", _W_IT, "drop after the only pair was read")]
U_ITER_T = [_ui("iter_unit_n0", _W_IT, "no notification"), _ui("iter_unit_n2_early", _W_IT, "2 notifications, early read"), _ui("iter_unit_n3", _W_IT, "3 notifications")]
U_ITER_TWIN = [_ui("twin_u_iter", "vacuity twin", "", role="twin")]
W_ITER = [_gn("wire_iter_h", "StoreImpl::iter() builds exactly that: one capacity-1 queue, one registered subscriber that forwards with a blocking send", "")]
W_ITER_T = [_gn("iter_drop_empty", "through the store: drop(iter) detaches it, later notifications reach the other subscribers only, store keeps working until stop()", "2 actions, loop with real do_notify", timeout_s=1200, mem_gb=16)]
KF_ITER = "C13-iterator-dropped-with-unread-item-blocks-forever"
WIT_ITER = [_ui("iter_unit_drop_unread_witness", "KNOWN-FINDING witness: drop(iterator) while its capacity-1 queue holds an unread pair: on_unsubscribe's blocking send of the end marker can never complete (the sender's own receiver clone keeps the queue connected)", "1 unread pair", role="witness", known_finding=KF_ITER)]
WIT_ITER_T = [_gn("iter_client_drop_unread_witness", "the same through StoreImpl::iter() and the store's subscription closure", "", role="witness", known_finding=KF_ITER, timeout_s=900)]

CHECKS["C14"] = {
    "bounds": "0..3 notifications with symbolic (state, action); consumer reads late (after shutdown) or one pair early; store shutdown = release of the iterator's subscriber; drop of a fresh / fully-read iterator",
    "outside": "the reducer loop and do_notify in front of the iterator's subscriber are covered by U-notify / G-fold, not composed here by the tool; iterators created while actions are in flight; more than 3 pairs; iter_with() with other policies (crate-private, unused); drop with an unread pair is the C13 known finding",
    "assumptions": ["producer and consumer alternate at channel operations only (a blocked send is served by exactly one next())"],
    "quick": U_ITER_Q + W_ITER + U_ITER_TWIN,
    "thorough": U_ITER_T + W_ITER_T,
}
_W_CS = "REAL ChanneledSubscriber::{on_notify,on_unsubscribe,unsubscribe,clear_resource} and StoreImpl::subscribed_loop, concretely typed (hook H5), real BackpressureChannel with the subscription's policy, modelled delivery thread that runs when joined (starved consumer); notification data symbolic; oracle: nothing delivered in the reducer context, drop policies never block, everything queued is delivered in order on the subscriber's thread before the release returns, nothing afterwards, released once"
IN_STORE_Q = [_is("chan_sub_block_n2_cap2", _W_CS, "BlockOnFull, 2 notifications, capacity 2, release by store shutdown"), _is("chan_sub_oldest_n2_cap1", _W_CS, "DropOldest, 2 notifications, capacity 1: the newest is delivered"), _is("chan_sub_latest_n3_cap2_unsub", _W_CS, "DropLatest, 3 notifications, capacity 2, release by unsubscribe()"), _is("chan_sub_block_n0", _W_CS, "no notification, unsubscribe()")]
IN_STORE_T = [_is("chan_sub_block_n3_cap3_unsub", _W_CS, "BlockOnFull, 3 notifications"), _is("chan_sub_oldest_n3_cap2_unsub", _W_CS, "DropOldest, 3 notifications, capacity 2"), _is("chan_sub_latest_n2_cap1", _W_CS, "DropLatest, capacity 1")]
IN_STORE_TWIN = [_is("twin_in_store", "vacuity twin", "", role="twin")]
_W_WCS = "StoreImpl::subscribed_with()/subscribed() build exactly that: one queue of the requested capacity and policy, one delivery thread, one registered forwarding subscriber that only enqueues"
W_CHSUB = [_gn("wire_chsub_block", _W_WCS, "capacity 2, BlockOnFull", mem_gb=24, timeout_s=1200), _gn("wire_subscribed", _W_WCS, "subscribed(): default capacity")]
W_CHSUB_T = [_gn("wire_chsub_oldest", _W_WCS, "capacity 1, DropOldest", mem_gb=24, timeout_s=1200), _gn("wire_chsub_latest", _W_WCS, "capacity 3, DropLatest", mem_gb=24, timeout_s=1200)]
CHECKS["C10"] = {
    "bounds": "0..3 notifications, capacity 1..3, all three policies, release by unsubscribe() and by store shutdown, starved consumer (the delivery thread runs when it is joined)",
    "outside": "PARTIAL CLAIM: schedules in which the delivery thread consumes WHILE the reducer keeps producing (a BlockOnFull queue smaller than the backlog, partial consumption under a drop policy) need two suspended loops and cannot be expressed in the sequentialisation; the do_notify loop in front of the forwarding subscriber is covered by U-notify, not composed by the tool",
    "assumptions": ["std::thread is modelled: spawn defers the closure, join runs it to completion"],
    "quick": IN_STORE_Q + W_CHSUB + IN_STORE_TWIN,
    "thorough": IN_STORE_T + W_CHSUB_T,
}
CHECKS["C13"] = {
    "bounds": "obligations decided in the sequentialised model: (a) no lock() on a mutex already held by a suspended context and no blocking channel operation that nothing can unblock, in the loop-level, iterator and channeled-subscriber scenarios; (b) no store lock held while stop() joins the pool, sender lock held at every enqueue (probes); (c) every scripted call returns",
    "outside": "PARTIAL CLAIM: deadlocks that need two client threads suspended in mid-call; anything inside crossbeam's parking or rusty_pool's condvar/join generations; completion 'rather than by timeout' (no clock); programs of 2-4 client threads with more than one call placed inside the loop",
    "assumptions": [_SEQ_ASSUME, "Mutex::lock is stubbed by try_lock: a held mutex met by the running context is reported as deadlock (or 'not enabled here' for a schedule-placed call)"],
    "quick": G_LOCKS[:2] + G_FOLD_Q[:1] + U_ITER_Q[1:3] + IN_STORE_Q[:2] + WIT_ITER + U_ITER_TWIN + IN_STORE_TWIN,
    "thorough": G_LOCKS[2:] + S_RACE[:4] + U_SUBS_Q[:1] + WIT_ITER_T,
}

_W_DISP = "one dispatch through a given entry point against a FULL queue (loop not scheduled; a blocked BlockOnFull sender is served by one reducer-side take): BlockOnFull waits and is then accepted and enqueued, nothing is handed to a worker, DropOldest evicts+counts the oldest, DropLatest discards+counts the new one and Dispatcher::dispatch reports Err"
def _ud(n, b):
    return _ph(n, _W_DISP, b)
U_DISP_Q = [_ud("u_dispatch_block_cap1_inherent", "BlockOnFull, capacity 1, StoreImpl::dispatch"), _ud("u_dispatch_block_cap2_dispatcher", "BlockOnFull, capacity 2, Dispatcher::dispatch"), _ud("u_dispatch_oldest_cap1_dispatcher", "DropOldest, capacity 1, Dispatcher::dispatch"), _ud("u_dispatch_latest_cap1_dispatcher", "DropLatest, capacity 1, Dispatcher::dispatch")]
U_DISP_T = [_ud("u_dispatch_block_cap1_trait", "BlockOnFull, Store::dispatch"), _ud("u_dispatch_oldest_cap2_inherent", "DropOldest, capacity 2, StoreImpl::dispatch"), _ud("u_dispatch_latest_cap2_dispatcher", "DropLatest, capacity 2"), _ud("u_dispatch_latest_cap1_inherent", "DropLatest, StoreImpl::dispatch")]
_W_LATE = "add_middleware / add_reducer by another thread placed inside a callback of action 0 (real do_reduce; skipped/pruned where the reducer context holds the list's lock); action 1 dispatched afterwards must run the late component, after the earlier ones"
S_LATE = [_ph(n, _W_LATE, b, may_be_pruned=True) for n, b in [("s_late_mw_in_before_reduce0", "add_middleware inside middleware 0's before_reduce"), ("s_late_mw_in_before_reduce1", "add_middleware inside middleware 1's before_reduce"), ("s_late_mw_in_reducer0", "add_middleware inside reducer 0"), ("s_late_reducer_in_before_reduce1", "add_reducer inside middleware 1's before_reduce"), ("s_late_reducer_in_reducer1", "add_reducer inside reducer 1")]]
CHECKS["C02"]["quick"] += U_DISP_Q[:2]
CHECKS["C02"]["thorough"] += U_DISP_T[:1]
CHECKS["C05"]["quick"] += U_DISP_Q[:2]
CHECKS["C05"]["thorough"] += U_DISP_T[:1]
CHECKS["C06"]["quick"] += U_DISP_Q[2:]
CHECKS["C06"]["thorough"] += U_DISP_T[1:]
CHECKS["C18"]["thorough"] += U_DISP_Q[2:]
CHECKS["C07"]["quick"] += [S_LATE[0], S_LATE[2], S_LATE[4]] + U_SUBS_Q[1:2]
CHECKS["C07"]["thorough"] += [S_LATE[1], S_LATE[3]] + U_SUBS_Q[2:]
CHECKS["C07"]["bounds"] += "; run-time registration: add_middleware/add_reducer placed inside a callback of the current action (5 placements), next action must include the component; registration order kept after an unsubscribe (3 subscribers)"
CHECKS["C03"]["quick"] += U_SUBS_Q[1:2]
CHECKS["C03"]["thorough"] += U_SUBS_Q[2:] + U_SUBS_T
CHECKS["C03"]["bounds"] += "; registration order of the remaining subscribers after an unsubscribe (3 subscribers)"

_W_FULL = "shutdown with a FULL queue under a drop policy (the shutdown marker itself goes through the policy: DropLatest discards it and the loop ends by disconnection, DropOldest evicts and counts the oldest action); phases summarised; oracle: survivors reduced once in order, conservation with the dropped counter, loop ends, subscribers released, dispatch rejected afterwards"
G_FULL = [_g("g_full_latest_k2_stop", _W_FULL, "DropLatest, 2 queued actions, stop()"), _g("g_full_oldest_k2_stop", _W_FULL, "DropOldest, 2 queued actions, stop()"), _g("g_full_latest_k1_drop", _W_FULL, "DropLatest, 1 queued action, drop(DroppableStore)"), _g("g_full_oldest_k3_drop", _W_FULL, "DropOldest, 3 queued actions, drop(DroppableStore)")]
CHECKS["C04"]["quick"] += G_FULL[:1]
CHECKS["C04"]["thorough"] += G_FULL[1:]
CHECKS["C06"]["quick"] += G_FULL[:2]
CHECKS["C06"]["thorough"] += G_FULL[2:]
CHECKS["C09"]["quick"] += G_FULL[:1]
CHECKS["C09"]["thorough"] += G_FULL[1:]
CHECKS["C15"]["quick"] += G_FULL[2:3]
CHECKS["C15"]["thorough"] += G_FULL[3:]
CHECKS["C18"]["quick"] += G_FULL[1:2]
CHECKS["C18"]["thorough"] += G_FULL[:1]
G_EFF_CTX = [_ge("g_effects_backlog_at_stop_ctx_task", _W_GE + "; dispatch(a); stop(); loop: whatever happens to the effect of a, it never runs in the reducer context and never twice; a itself is completely processed", "Task effect", timeout_s=600), _ge("g_effects_backlog_at_stop_ctx_thunk", _W_GE + "; same with a Thunk", "Thunk effect", timeout_s=600)]
CHECKS["C11"]["quick"] += G_EFF_CTX[:1] + U_EFFECT_T[1:2]
CHECKS["C11"]["thorough"] = [x for x in CHECKS["C11"]["thorough"] if x["name"] != U_EFFECT_T[1]["name"]] + G_EFF_CTX[1:]

G_JOIN = [_ge("g_join_runs_loop_task", _W_GE + "; the reducer loop is run WHILE stop() is inside the pool join (placed at the join's scheduling point): a lock of the store that stop() still holds and the loop needs is a deadlock", "backlog of 1 action with a Task effect", timeout_s=600), _ge("g_join_runs_loop_none", _W_GE + "; loop run inside the join", "backlog of 1 action without effect", timeout_s=600)]
G_JOIN_T = [_ge("g_join_runs_loop_thunk", _W_GE + "; loop run inside the join", "Thunk effect", timeout_s=600)]
CHECKS["C13"]["quick"] = G_JOIN + [x for x in CHECKS["C13"]["quick"]]
CHECKS["C13"]["thorough"] += G_JOIN_T
CHECKS["C13"]["bounds"] += "; (d) the reducer loop run while stop() is suspended inside the pool join"
CHECKS["C04"]["thorough"] += G_JOIN[:1]
CHECKS["C18"]["quick"] += U_EFFECT_Q[1:2]
for _p in ("C01", "C02", "C04", "C13"):
    for _t in ("quick", "thorough"):
        for _x in CHECKS[_p][_t]:
            if "g_locks" in _x["name"]:
                _x["what"] = "ADVISORY " + _x["what"] + " (mechanism probe: a failure is reported as a note, not as a violation)"

_W_UNSUB = "REAL loop + REAL do_notify (reduce/effect summarised), subscribers A and B; unsubscribe(B) by another thread placed at ONE scheduling point before / between the notification rounds of 2 notifying actions; oracle: nothing delivered to B after unsubscribe() returned, A unaffected, on_unsubscribe once each"
S_UNSUB = [_gn(n, _W_UNSUB, b, timeout_s=900) for n, b in [("s_unsub_reduce0", "during the reduce phase of action 0"), ("s_unsub_before_dispatch0", "in before_dispatch of action 0 (snapshot not yet taken)"), ("s_unsub_between", "after action 1 was taken from the queue"), ("s_unsub_effect0", "during the effect phase of action 0"), ("s_unsub_reduce1", "during the reduce phase of action 1")]]
CHECKS["C09"]["quick"] += S_UNSUB[:3]
CHECKS["C09"]["thorough"] += S_UNSUB[3:]
CHECKS["C09"]["bounds"] += "; unsubscribe(B) from another thread placed at 5 scheduling points before/between notification rounds (K=1)"

_W_ROUND = "REAL do_notify with 3 scripted subscribers; while the round is in progress (inside one subscriber's callback) another subscriber's entry is removed from the shared list, which is the effect of a concurrent unsubscribe() on it; oracle: the subscribers registered for the whole run are called exactly once for this action and for the next one (33 M SAT variables: thorough tier only)"
U_ROUND_T = [_us("u_subs_round_first_leaves_in_own_callback", _W_ROUND, "A removed during A's callback", timeout_s=2400, mem_gb=44), _us("u_subs_round_first_leaves_during_second", _W_ROUND, "A removed during B's callback", timeout_s=2400, mem_gb=44)]
CHECKS["C03"]["thorough"] += U_ROUND_T[:1]
CHECKS["C09"]["thorough"] += U_ROUND_T

_W_READ = "a reader thread's get_state() (inherent and Store-trait entry points, two reads in a row) placed at the loop's channel-level scheduling points; oracle: exactly the state left by the last completely reduced action (arbitrary per-action states from the summaries), reads never go back"
S_READ = [_g(n, _W_READ, b) for n, b in [("s_read_k2_before_first", "2 actions; before the loop takes the first"), ("s_read_k2_after_taking_second", "2 actions; right after the second was taken"), ("s_read_k2_before_marker", "2 actions; before the shutdown marker is taken"), ("s_read_k3_after_taking_third", "3 actions; after the third was taken"), ("s_read_k1_after_marker", "1 action; after the marker was taken")]]
CHECKS["C08"]["quick"] += S_READ[:3]
CHECKS["C08"]["thorough"] += S_READ[3:]
CHECKS["C08"]["bounds"] += "; plus a reader thread placed at the loop's recv / taken scheduling points (5 placements, K=1)"
CHECKS["C08"]["outside"] = "reader threads between a phase boundary and the next scheduling point other than those listed; torn reads (excluded by the Mutex)"
_W_BLOCK = "the reducer is held inside the reduce phase of the first action (queue was full before it got scheduled); a producer keeps dispatching while it would not have to wait; oracle: accepted-but-not-started actions never exceed the capacity, the producer got exactly the one slot the reducer freed, queue bound"
S_BLOCK = [_g("s_block_cap2", _W_BLOCK, "capacity 2, up to 4 producer calls"), _g("s_block_cap1", _W_BLOCK, "capacity 1")]
CHECKS["C05"]["quick"] += S_BLOCK[:1]
CHECKS["C05"]["thorough"] += S_BLOCK[1:]
CHECKS["C05"]["bounds"] += "; producer burst while the reducer is held in the first action (capacity 1..2)"

CHECKS["C04"]["quick"] += U_DISP_Q[:1]
CHECKS["C10"]["quick"] += G_FULL[:1]
CHECKS["C13"]["quick"] += G_FULL[:1]
CHECKS["C14"]["quick"] += G_FULL[:1]

# deeper bounds for the thorough tier
G_FOLD_T2 = [_g("g_fold_k3_close_stop", _W_G, "3 actions; close(); loop; stop()"), _g("g_fold_k3_close_dispatch_stop", _W_G, "3 actions; close(); dispatch rejected; stop()"), _g("g_fold_k1_drop", _W_G + "; drop(DroppableStore)", "1 action")]
S_RACE_B2 = [_g(n, _W_RACE, "backlog 2, placement " + n[10:], timeout_s=800) for n in ["s_race_b2_close_sent", "s_race_b2_join", "s_race_b2_loop_taken1", "s_race_b2_loop_notify1", "s_race_b2_loop_recv2"]]
for _p in ("C01", "C04", "C08"):
    CHECKS[_p]["thorough"] += G_FOLD_T2[:2]
CHECKS["C15"]["thorough"] += G_FOLD_T2[2:]
CHECKS["C04"]["thorough"] += S_RACE_B2
CHECKS["C01"]["thorough"] += S_RACE_B2[:2]
CHECKS["C02"]["thorough"] += [H("u_chan::chan_step_cap4", "one send from an arbitrary queue, capacity 4", "capacity 4", timeout_s=400)]
CHECKS["C05"]["thorough"] += [H("u_chan::chan_step_cap4", "one send from an arbitrary queue, capacity 4", "capacity 4", timeout_s=400)]
CHECKS["C06"]["thorough"] += [H("u_chan::chan_step_cap4", "one send from an arbitrary queue, capacity 4", "capacity 4", timeout_s=400)]
CHECKS["C12"]["thorough"] += [_ph("u_notify_s3_m3", _W_NOT, "3 subscribers, 3 middlewares"), _ph("u_reduce_r3_m2", _W_RED, "3 reducers, 2 middlewares")]
CHECKS["C03"]["thorough"] += [_ph("u_notify_s3_m3", _W_NOT, "3 subscribers, 3 middlewares")]
CHECKS["C19"]["thorough"] += [_g2("g_two_drop_2_2", _W_TWO, "A: 2+1 actions, B: 2 actions, B dropped")]
CHECKS["C09"]["thorough"] += [_gn(n, _W_UNSUB, b, timeout_s=900) for n, b in [("s_unsub_taken0", "right after action 0 was taken"), ("s_unsub_effect1", "during the effect phase of action 1")]]

_W_TWO_P = "two equal stores; A is stopped with a backlog of 2; while A's loop works through it INSIDE the join, another thread dispatches to B and stops / drops B (its own loop then runs inside B's join) at one scheduling point of A's loop; oracle: each store's log, state, acceptance and metrics are those of the single-store model"
CHECKS["C19"]["quick"] += [_g2("g_two_b_stopped_while_a_between_actions", _W_TWO_P, "B used and stopped right after A took its second action")]
CHECKS["C19"]["thorough"] += [_g2("g_two_b_dropped_while_a_before_first", _W_TWO_P, "B dropped before A takes its first action"), _g2("g_two_b_stopped_while_a_takes_marker", _W_TWO_P, "B stopped when A takes its shutdown marker")]
CHECKS["C19"]["bounds"] += "; operations on B (dispatch + stop/drop, with B's loop running inside B's join) placed at 3 scheduling points inside A's loop run (K=1)"
CHECKS["C19"]["outside"] = "more than two stores; operations of one store issued from inside a CALLBACK of the other (cross-store dispatch from a subscriber), thread-local or thread-name based coupling (all modelled contexts share one OS thread); interference through user-supplied shared objects"

_W_EFULL = "real StoreImpl::do_effect run in the reducer context against a FULL BlockOnFull dispatch queue (nobody takes from it while the reducer is inside the phase); oracle: the phase returns without the reducer waiting on its own queue (a wait is reported as deadlock), enqueues nothing itself, submits every effect; then the workers run: each follow-up dispatch waits for room, is served by exactly one reducer take and is accepted; the queue never exceeds its capacity"
U_EFULL = [_ph("u_effect_full_action_cap1", _W_EFULL, "Effect::Action, capacity 1"), _ph("u_effect_full_thunk_action_cap2", _W_EFULL, "Thunk+Action, capacity 2"), _ph("u_effect_full_action_thunk_cap1", _W_EFULL, "Action+Thunk, capacity 1"), _ph("u_effect_full_task_action_cap2", _W_EFULL, "Task+Action, capacity 2")]
CHECKS["C13"]["quick"] += U_EFULL[:2]
CHECKS["C13"]["thorough"] += U_EFULL[2:]
CHECKS["C13"]["bounds"] += "; (e) the effect phase against a full BlockOnFull queue (1-2 effects, capacity 1-2): the reducer context never waits on its own queue"
CHECKS["C11"]["quick"] += U_EFULL[:1]
CHECKS["C11"]["thorough"] += U_EFULL[1:]
CHECKS["C05"]["thorough"] += U_EFULL[:2]

_W_SELU = "real SelectorSubscriber: symbolic notifications with on_unsubscribe() delivered to the object before a later one (a subscriber unsubscribed while a round whose snapshot contains it is in progress); oracle: before it the exact de-duplicated stream; after it the object may stay silent but never delivers again the value it last delivered, and what it delivers carries the right value and action"
CHECKS["C16"]["quick"] += [H("u_selector::u_selector_n3_unsub_before_last", _W_SELU, "n=3, on_unsubscribe before the third", timeout_s=400)]
CHECKS["C16"]["thorough"] += [H("u_selector::u_selector_n4_unsub_before_third", _W_SELU, "n=4, on_unsubscribe before the third", timeout_s=400)]
CHECKS["C16"]["bounds"] += "; plus on_unsubscribe() delivered between notifications (1 position per harness)"

_W_RMID = "a reader thread's get_state() placed INSIDE a callback of the reduce phase (REAL do_reduce, 2 reducers, 2 middlewares, symbolic state/action/answers); oracle: the reader sees the state the store held before the phase (no action reduced completely yet), never the output of a part of the reducer chain"
S_RMID = [_ph("s_read_mid_in_reducer1", _W_RMID, "reader inside the second reducer", require_covers=["the reader ran inside the callback"]), _ph("s_read_mid_in_reducer0", _W_RMID, "reader inside the first reducer"), _ph("s_read_mid_in_before_reduce1", _W_RMID, "reader inside the second middleware's before_reduce")]
CHECKS["C08"]["quick"] += S_RMID[:1]
CHECKS["C08"]["thorough"] += S_RMID[1:]
CHECKS["C08"]["bounds"] += "; plus a reader placed inside a reducer / before_reduce callback of the real reduce phase (3 placements)"
CHECKS["C08"]["outside"] = "reader threads between a phase boundary and the next scheduling point other than those listed; a reader suspended INSIDE get_state (holding the state lock) while the loop publishes; torn reads (excluded by the Mutex)"

_W_HOLD = "REAL loop (phases summarised), k actions queued, stop(); a reader thread is SUSPENDED INSIDE get_state() holding the state lock from the moment the loop has taken one action; a context that waits for that lock lets the reader finish (Mutex::lock model), otherwise the reader finishes when the loop comes back for the next item; oracle: the reader saw a completely reduced state and after stop() get_state() is the state after the last reduced action"
S_HOLD = [_g("s_read_hold_k1_last", _W_HOLD, "1 action, reader holds the lock while it is published"), _g("s_read_hold_k2_last", _W_HOLD, "2 actions, reader holds the lock while the second is published"), _g("s_read_hold_k2_first", _W_HOLD, "2 actions, reader holds the lock while the first is published")]
CHECKS["C01"]["quick"] += S_HOLD[:1]
CHECKS["C01"]["thorough"] += S_HOLD[1:]
CHECKS["C08"]["quick"] += S_HOLD[1:2]
CHECKS["C08"]["thorough"] += S_HOLD[2:]
CHECKS["C01"]["bounds"] += "; plus a reader suspended inside get_state() (holding the state lock) across the publication of one action (1-2 actions, 3 placements)"
CHECKS["C08"]["bounds"] += "; plus a reader suspended inside get_state() holding the state lock across a publication (K=1)"
CHECKS["C08"]["outside"] = "reader threads between a phase boundary and the next scheduling point other than those listed; more than one reader suspended at a time; torn reads (excluded by the Mutex)"

G_FOLD_CD = [_g("g_fold_k2_close_drop", _W_G + "; close() through a clone while the backlog is queued, then drop(DroppableStore): the drop still waits for the backlog", "2 actions"), _g("g_fold_k1_close_drop", _W_G + "; clone.close(); drop(DroppableStore)", "1 action")]
CHECKS["C15"]["quick"] += G_FOLD_CD[:1]
CHECKS["C15"]["thorough"] += G_FOLD_CD[1:]
CHECKS["C04"]["thorough"] += G_FOLD_CD[:1]
CHECKS["C15"]["bounds"] += "; plus close() through another clone before the drop (backlog 1-2)"

_W_NEST = "REAL loop run FIRST on an open store (phases summarised, realisable): during the effect phase of action 0 a middleware dispatches x synchronously through the dispatcher the loop handed it, while action 1 (dispatch already returned) is still queued; the client calls close() when the loop finds the queue empty, then stop(); oracle: a0, a1, x each pass the pipeline exactly once, in that (real-time) order, each fed its predecessor's state, one at a time, all before stop() returns"
G_NEST = [_g("g_nested_cap3", _W_NEST, "capacity 3"), _g("g_nested_cap2", _W_NEST, "capacity 2 (queue full when the loop starts)")]
CHECKS["C02"]["quick"] += G_NEST[:1]
CHECKS["C02"]["thorough"] += G_NEST[1:]
CHECKS["C01"]["thorough"] += G_NEST[:1]
CHECKS["C07"]["thorough"] += G_NEST[:1]
CHECKS["C02"]["bounds"] += "; plus one action dispatched synchronously from inside a middleware callback (through the dispatcher the loop hands to callbacks) with one action queued"

_W_CROSS = "two stores; a callback of store A (effect phase of A's first action, on A's reducer thread, inside A's loop run) dispatches to store B whose BlockOnFull queue (capacity 1) is full; B's reducer takes one item when somebody waits; oracle: for B this is an ordinary client call - it waits for room, is accepted, takes the freed slot, B counts no error and no drop; A's own log/state/metrics are those of the single-store model"
CHECKS["C19"]["quick"] += [_g2("g_two_cross_dispatch_full_b", _W_CROSS, "A: 1 action, B: capacity 1, full")]
CHECKS["C19"]["bounds"] += "; one cross-store dispatch from a callback of A into a full queue of B"
CHECKS["C19"]["outside"] = "more than two stores; thread-name based coupling (thread names are not modelled); thread-local coupling other than along a call made from a store's own reducer context (all modelled contexts share one OS thread, so a thread-local set by A's loop is also seen by client calls PLACED inside A's loop run); interference through user-supplied shared objects"

_W_EFULLP = "as U-effect-full, with a PRODUCER suspended inside a BlockOnFull dispatch() on the full queue (it holds the dispatch_tx lock and can only go on after the reducer took an item): the effect phase must return without waiting for the queue or for that lock (a wait closes a producer/reducer cycle and is reported as deadlock), leaves the producer's slot alone and submits the effect"
U_EFULLP = [_ph("u_effect_full_producer_blocked_action_cap1", _W_EFULLP, "Effect::Action, capacity 1"), _ph("u_effect_full_producer_blocked_thunk_cap2", _W_EFULLP, "Thunk, capacity 2")]
CHECKS["C13"]["quick"] += U_EFULLP[:1]
CHECKS["C13"]["thorough"] += U_EFULLP[1:]
CHECKS["C05"]["quick"] += U_EFULLP[:1]
CHECKS["C05"]["thorough"] += U_EFULLP[1:]
CHECKS["C13"]["bounds"] += "; (f) the effect phase while a producer is suspended inside dispatch() holding the sender lock on a full queue"
CHECKS["C05"]["bounds"] += "; the effect phase against a full queue with a producer blocked in dispatch()"

U_DISP_CAP3 = [_ud("u_dispatch_block_cap3_inherent", "BlockOnFull, capacity 3 (not a power of two), StoreImpl::dispatch")]
CHECKS["C05"]["quick"] += U_DISP_CAP3
CHECKS["C02"]["thorough"] += U_DISP_CAP3
CHECKS["C05"]["bounds"] += "; full-queue dispatch at capacity 3 (a capacity that is not a power of two)"

HOOK_COMMITS = ['da8b80e', '8cd617e', '39efd23']
NOT_APPLICABLE = {}

"""Registry: which harnesses decide which property in which tier (DESIGN.md §5)."""

COMMON_ASSUMPTIONS = [
    "bounded claim: holds for every value of the symbolic inputs within the stated sizes and unwind bounds; nothing is claimed beyond them",
    "one concrete instantiation: State = St{val:u8,seq:u8}, Action = u8",
    "crossbeam::channel, rusty_pool and std::thread (as used by store_impl.rs) are replaced by contract models (/verif/kani/shims, verif_kani::rt::thread); their internals are outside the claim",
    "Kani stubs: Arc::drop_slow -> no-op (destructors of Arc-held values do not run), fmt::format -> empty string, _print/_eprint -> no-op, Instant::now -> constant",
    "no panics/unwinding in user callbacks (Kani has none); atomics are sequential",
    "CBMC unwinding assertions are on: a too-small loop bound is reported as inconclusive, never as success",
]


def H(name, what="", bounds="", role="decide", **kw):
    d = {"name": name, "what": what, "bounds": bounds, "role": role}
    d.update(kw)
    return d


CHECKS = {
    "C16": {
        "bounds": "sequences of n<=3 (quick) / n<=5 (thorough) notifications with arbitrary states and actions; selector = low 2 bits of the state payload (alphabet of 4 values); Output=u8",
        "outside": "Output types whose PartialEq is not an equivalence; sequences longer than 5 (the step from an arbitrary Some(last) is covered by the second notification of every sequence)",
        "assumptions": [],
        "quick": [
            H("u_selector::u_selector_n3", "real SelectorSubscriber::on_notify x3, all states/actions symbolic; oracle: de-duplicated selected-value stream with causing actions", "n=3, unwind 7"),
            H("u_selector::twin_u_selector", "vacuity twin: wrong oracle (fires on every notification) must be refuted", "n=2", role="twin"),
        ],
        "thorough": [
            H("u_selector::u_selector_n5", "same with 5 notifications", "n=5, unwind 7"),
        ],
    },
}

HOOK_COMMITS = ["da8b80e"]
NOT_APPLICABLE = {}

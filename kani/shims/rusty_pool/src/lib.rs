//! Verification model of `rusty_pool::{Builder, ThreadPool}` for bounded model checking of
//! rs-store with Kani (DESIGN.md §4.2).
//!
//! Contract honoured: `execute` never runs the task inline; every submitted task runs
//! exactly once, later, in some worker context; `shutdown_join*` returns only after all
//! submitted work (including work submitted meanwhile) has finished — expressed here by
//! *recording* the join request and letting the harness-level runtime drain the pool
//! before the joiner's script continues (the model never runs a task from inside
//! `shutdown_join*`).  Not modelled: worker limits, keep-alive, panic recovery, the
//! timeout of `shutdown_join_timeout`, join generations.
#![feature(const_type_name)]
#![allow(clippy::all)]
#![allow(static_mut_refs)]

use std::time::Duration;

pub const MAX_TASKS: usize = 8;
pub const MAX_POOLS: usize = 4;

pub const ST_EMPTY: u8 = 0;
pub const ST_PENDING: u8 = 1;
pub const ST_RUNNING: u8 = 2;
pub const ST_DONE: u8 = 3;

const fn contains(h: &str, n: &str) -> bool {
    let h = h.as_bytes();
    let n = n.as_bytes();
    if n.len() > h.len() {
        return false;
    }
    let mut i = 0;
    while i + n.len() <= h.len() {
        let mut j = 0;
        let mut ok = true;
        while j < n.len() {
            if h[i + j] != n[j] {
                ok = false;
                break;
            }
            j += 1;
        }
        if ok {
            return true;
        }
        i += 1;
    }
    false
}

/// Same shape as rusty_pool's `Task` trait.
pub trait Task<R: Send>: Send {
    fn run(self) -> R;
    fn into_fn(self) -> Option<Box<dyn FnOnce() -> R + Send + 'static>>;
    fn is_fn(&self) -> bool;
}
impl<R, F> Task<R> for F
where
    R: Send,
    F: FnOnce() -> R + Send + 'static,
{
    fn run(self) -> R {
        self()
    }
    fn into_fn(self) -> Option<Box<dyn FnOnce() -> R + Send + 'static>> {
        Some(Box::new(self))
    }
    fn is_fn(&self) -> bool {
        true
    }
}

/// Own object-safe task type, so that pool tasks do not take part in the drop-glue
/// recursion of `Box<dyn FnOnce()>`.
trait ShimTask {
    /// run from the top level of a harness (the reducer loop may be started here)
    fn run_box_top(self: Box<Self>);
    /// run from a context that may be nested inside the store's reducer loop: the loop
    /// closure's instance refuses (a compile-time constant guard, so the symbolic executor
    /// never re-enters the loop through this call)
    fn run_box_nested(self: Box<Self>);
}
struct Holder<T>(T);
impl<T: Task<()> + 'static> ShimTask for Holder<T> {
    fn run_box_top(self: Box<Self>) {
        (*self).0.run()
    }
    fn run_box_nested(self: Box<Self>) {
        // the store's reducer loop is the closure defined in `StoreImpl::new_with`
        if <T as IsLoop>::IS_LOOP {
            core::mem::forget(self);
            panic!("VERIF-MODEL: reducer loop task scheduled from a nested context");
        } else {
            (*self).0.run()
        }
    }
}
trait IsLoop {
    const IS_LOOP: bool;
}
impl<T> IsLoop for T {
    const IS_LOOP: bool = contains(core::any::type_name::<T>(), "new_with");
}

struct Slot {
    task: Option<Box<dyn ShimTask>>,
}
const SLOT0: Slot = Slot { task: None };

/// Ghost record of a task slot.
#[derive(Clone, Copy, Debug, PartialEq, Eq)]
pub struct TaskGhost {
    pub pool: usize,
    pub is_loop: bool,
    pub state: u8,
}
const TG0: TaskGhost = TaskGhost {
    pool: 0,
    is_loop: false,
    state: ST_EMPTY,
};

/// Ghost record of a pool.
#[derive(Clone, Copy, Debug, PartialEq, Eq)]
pub struct PoolGhost {
    /// the name handed to `Builder::name` was non-empty
    pub named: bool,
    pub name_len: usize,
    /// live `ThreadPool` handles (clones)
    pub handles: usize,
    pub submitted: usize,
    /// `shutdown_join*` / `join*` calls recorded
    pub join_requests: usize,
    /// join requested with a timeout
    pub join_with_timeout: usize,
    pub shutdowns: usize,
}
const PG0: PoolGhost = PoolGhost {
    named: false,
    name_len: 0,
    handles: 0,
    submitted: 0,
    join_requests: 0,
    join_with_timeout: 0,
    shutdowns: 0,
};

static mut SLOTS: [Slot; MAX_TASKS] = [SLOT0; MAX_TASKS];
static mut TASKS: [TaskGhost; MAX_TASKS] = [TG0; MAX_TASKS];
static mut N_TASKS: usize = 0;
static mut POOLS: [PoolGhost; MAX_POOLS] = [PG0; MAX_POOLS];
static mut N_POOLS: usize = 0;

pub mod ghost {
    //! harness-facing API of the model
    use super::*;

    pub fn reset() {
        unsafe {
            N_TASKS = 0;
            N_POOLS = 0;
            TASKS = [TG0; MAX_TASKS];
            POOLS = [PG0; MAX_POOLS];
        }
    }
    pub fn pools() -> usize {
        unsafe { N_POOLS }
    }
    pub fn pool(id: usize) -> PoolGhost {
        unsafe { POOLS[id] }
    }
    pub fn tasks() -> usize {
        unsafe { N_TASKS }
    }
    pub fn task(k: usize) -> TaskGhost {
        unsafe { TASKS[k] }
    }
    /// index of the reducer-loop task of `pool`, if one was recognised
    pub fn loop_task(pool: usize) -> Option<usize> {
        unsafe {
            let mut k = 0;
            while k < N_TASKS {
                if TASKS[k].pool == pool && TASKS[k].is_loop {
                    return Some(k);
                }
                k += 1;
            }
        }
        None
    }
    /// next pending non-loop task (of any pool), if any
    pub fn next_pending() -> Option<usize> {
        unsafe {
            let mut k = 0;
            while k < N_TASKS {
                if TASKS[k].state == ST_PENDING && !TASKS[k].is_loop {
                    return Some(k);
                }
                k += 1;
            }
        }
        None
    }
    /// Run task `k` to completion on the caller's stack.  Top-level callers (the harness
    /// itself) pass `allow_loop = true`; callers nested inside the reducer loop pass the
    /// literal `false`.
    #[inline(always)]
    pub fn run_task(k: usize, allow_loop: bool) {
        unsafe {
            if TASKS[k].state != ST_PENDING {
                panic!("VERIF-MODEL: run_task on a task that is not pending");
            }
            TASKS[k].state = ST_RUNNING;
            let t = SLOTS[k].task.take();
            match t {
                Some(b) => {
                    if allow_loop {
                        b.run_box_top()
                    } else {
                        b.run_box_nested()
                    }
                }
                None => panic!("VERIF-MODEL: empty task slot"),
            }
            TASKS[k].state = ST_DONE;
        }
    }
}

pub struct Builder {
    name: Option<String>,
}
impl Default for Builder {
    fn default() -> Self {
        Builder { name: None }
    }
}
impl Builder {
    pub fn new() -> Builder {
        Builder { name: None }
    }
    pub fn name(mut self, name: String) -> Builder {
        self.name = Some(name);
        self
    }
    pub fn core_size(self, _size: usize) -> Builder {
        self
    }
    pub fn max_size(self, _size: usize) -> Builder {
        self
    }
    pub fn keep_alive(self, _keep_alive: Duration) -> Builder {
        self
    }
    pub fn build(self) -> ThreadPool {
        let id = unsafe {
            let id = N_POOLS;
            if id >= MAX_POOLS {
                panic!("VERIF-BOUND: more than MAX_POOLS pools");
            }
            N_POOLS = id + 1;
            POOLS[id] = PG0;
            POOLS[id].handles = 1;
            if let Some(n) = self.name.as_ref() {
                POOLS[id].named = !n.is_empty();
                POOLS[id].name_len = n.len();
            }
            id
        };
        ThreadPool { id }
    }
}

pub struct ThreadPool {
    id: usize,
}
impl Clone for ThreadPool {
    fn clone(&self) -> Self {
        unsafe {
            POOLS[self.id].handles += 1;
        }
        ThreadPool { id: self.id }
    }
}
impl Drop for ThreadPool {
    fn drop(&mut self) {
        unsafe {
            POOLS[self.id].handles -= 1;
        }
    }
}
impl Default for ThreadPool {
    fn default() -> Self {
        Builder::new().build()
    }
}

impl ThreadPool {
    pub fn new(_core: usize, _max: usize, _keep_alive: Duration) -> Self {
        Builder::new().build()
    }
    pub fn new_named(name: String, _core: usize, _max: usize, _keep_alive: Duration) -> Self {
        Builder::new().name(name).build()
    }
    /// id of the pool in creation order (model-only API)
    pub fn model_id(&self) -> usize {
        self.id
    }
    pub fn get_name(&self) -> &str {
        "pool"
    }
    pub fn get_current_worker_count(&self) -> usize {
        0
    }
    pub fn get_idle_worker_count(&self) -> usize {
        0
    }
    pub fn start_core_threads(&self) {}

    pub fn execute<T: Task<()> + 'static>(&self, task: T) {
        crossbeam::hooks::yield_point(crossbeam::hooks::EXECUTE, self.id);
        unsafe {
            let k = N_TASKS;
            if k >= MAX_TASKS {
                panic!("VERIF-BOUND: more than MAX_TASKS pool tasks");
            }
            N_TASKS = k + 1;
            let b: Box<dyn ShimTask> = Box::new(Holder(task));
            core::ptr::write(&mut SLOTS[k].task, Some(b));
            TASKS[k] = TaskGhost {
                pool: self.id,
                is_loop: <T as IsLoop>::IS_LOOP,
                state: ST_PENDING,
            };
            POOLS[self.id].submitted += 1;
        }
    }
    pub fn try_execute<T: Task<()> + 'static>(&self, task: T) -> Result<(), ()> {
        self.execute(task);
        Ok(())
    }

    pub fn join(&self) {
        crossbeam::hooks::yield_point(crossbeam::hooks::JOIN, self.id);
        unsafe {
            POOLS[self.id].join_requests += 1;
        }
    }
    pub fn join_timeout(&self, _t: Duration) {
        crossbeam::hooks::yield_point(crossbeam::hooks::JOIN, self.id);
        unsafe {
            POOLS[self.id].join_requests += 1;
            POOLS[self.id].join_with_timeout += 1;
        }
    }
    pub fn shutdown(self) {
        unsafe {
            POOLS[self.id].shutdowns += 1;
        }
    }
    pub fn shutdown_join(self) {
        crossbeam::hooks::yield_point(crossbeam::hooks::JOIN, self.id);
        unsafe {
            POOLS[self.id].shutdowns += 1;
            POOLS[self.id].join_requests += 1;
        }
    }
    pub fn shutdown_join_timeout(self, _timeout: Duration) {
        crossbeam::hooks::yield_point(crossbeam::hooks::JOIN, self.id);
        unsafe {
            POOLS[self.id].shutdowns += 1;
            POOLS[self.id].join_requests += 1;
            POOLS[self.id].join_with_timeout += 1;
        }
    }
}

//! Verification model of `crossbeam::channel` for bounded model checking of rs-store
//! with Kani (DESIGN.md §4.2).  Contract honoured: bounded MPMC FIFO queue, linearizable
//! operations, disconnection when all handles of one side are gone.  No threads: a
//! blocking operation that cannot proceed calls `hooks::block`, which the harness binds
//! (via `#[kani::stub]`, or a function pointer under native playback) to its scheduler.
//!
//! The queue is a fixed array of `RING` slots kept left-aligned (slot 0 = head), so every
//! index is a constant for the symbolic executor.
#![allow(clippy::all)]
#![allow(static_mut_refs)]

pub mod hooks {
    //! Scheduling hooks.  Both functions are *empty* as far as the model checker is
    //! concerned (harnesses replace them with `#[kani::stub]`); natively they forward to
    //! a registered function pointer so that Kani's concrete playback drives the same
    //! scheduler.
    pub const SEND: u8 = 1;
    pub const TRY_SEND: u8 = 2;
    pub const RECV: u8 = 3;
    pub const TRY_RECV: u8 = 4;
    pub const EXECUTE: u8 = 5;
    pub const JOIN: u8 = 6;
    /// an item was just enqueued (by send / try_send)
    pub const SENT: u8 = 7;
    /// an item was just taken (by recv / try_recv)
    pub const TAKEN: u8 = 8;
    /// first id usable by harness-defined point kinds
    pub const USER: u8 = 16;

    static mut YIELD_FN: Option<fn(u8, usize)> = None;
    static mut BLOCK_FN: Option<fn(u8, usize)> = None;

    /// Native-only binding (under CBMC the two hook functions are stubbed and these
    /// pointers are never called).
    pub fn set_native(y: Option<fn(u8, usize)>, b: Option<fn(u8, usize)>) {
        unsafe {
            YIELD_FN = y;
            BLOCK_FN = b;
        }
    }

    /// A scheduling point: `kind` says which operation is about to happen on channel /
    /// pool `obj`.
    #[inline(never)]
    pub fn yield_point(kind: u8, obj: usize) {
        if let Some(f) = unsafe { YIELD_FN } {
            f(kind, obj)
        }
    }

    /// The calling context cannot proceed (`SEND` on a full queue, `RECV` on an empty
    /// one).  The scheduler must run somebody who unblocks it, or report a deadlock.
    #[inline(never)]
    pub fn block(kind: u8, obj: usize) {
        if let Some(f) = unsafe { BLOCK_FN } {
            f(kind, obj)
        } else {
            panic!("VERIF-DEADLOCK: blocking channel operation and no scheduler bound");
        }
    }
}

pub mod channel {
    use super::hooks;
    use std::cell::{Cell, UnsafeCell};
    use std::fmt;
    use std::sync::Arc;
    use std::time::{Duration, Instant};

    /// number of slots of every modelled queue (a queue created with a larger capacity is
    /// accepted; exceeding `RING` queued items is reported, never silently dropped)
    pub const RING: usize = 4;
    pub const MAX_CHANNELS: usize = 8;

    /// Ghost record of one channel, readable by harnesses through [`ghost`].
    #[derive(Clone, Copy, Debug, PartialEq, Eq)]
    pub struct Ghost {
        /// capacity handed to `bounded` (usize::MAX for `unbounded`)
        pub cap: usize,
        /// maximum queue length ever observed
        pub max_len: usize,
        pub len: usize,
        /// number of calls of the blocking `send`
        pub n_send: usize,
        /// blocking `send` calls that found the queue full (had to wait)
        pub n_send_waited: usize,
        pub n_try_send: usize,
        pub n_try_send_full: usize,
        pub n_recv: usize,
        pub n_recv_waited: usize,
        pub n_try_recv: usize,
        /// items removed through the receiver side in total
        pub n_taken: usize,
        pub senders: usize,
        pub receivers: usize,
    }

    const GHOST0: Ghost = Ghost {
        cap: 0,
        max_len: 0,
        len: 0,
        n_send: 0,
        n_send_waited: 0,
        n_try_send: 0,
        n_try_send_full: 0,
        n_recv: 0,
        n_recv_waited: 0,
        n_try_recv: 0,
        n_taken: 0,
        senders: 0,
        receivers: 0,
    };

    static mut GHOSTS: [Ghost; MAX_CHANNELS] = [GHOST0; MAX_CHANNELS];
    static mut N_CHANNELS: usize = 0;

    /// ghost record of the `id`-th channel created since [`reset`]
    pub fn ghost(id: usize) -> Ghost {
        unsafe { GHOSTS[id] }
    }
    /// number of channels created since [`reset`]
    pub fn channels_created() -> usize {
        unsafe { N_CHANNELS }
    }
    pub fn reset() {
        unsafe {
            N_CHANNELS = 0;
            GHOSTS = [GHOST0; MAX_CHANNELS];
        }
    }

    /// model-only: address of the queue of channel `id` (set at creation), so that a harness
    /// scheduler can play the receiving side of a channel it has no handle for
    static mut INNERS: [usize; MAX_CHANNELS] = [0; MAX_CHANNELS];

    /// take the head of channel `id`, as the (single) consumer's `recv` would.  The caller
    /// names the item type; using it with the wrong type is undefined.
    pub fn model_take_head<T>(id: usize) -> bool {
        unsafe {
            let p = INNERS[id] as *const Inner<T>;
            if p.is_null() {
                return false;
            }
            match (*p).pop() {
                Some(v) => {
                    core::mem::forget(v);
                    true
                }
                None => false,
            }
        }
    }

    struct Inner<T> {
        slots: UnsafeCell<[Option<T>; RING]>,
        len: Cell<usize>,
        cap: usize,
        id: usize,
    }
    unsafe impl<T: Send> Send for Inner<T> {}
    unsafe impl<T: Send> Sync for Inner<T> {}

    impl<T> Inner<T> {
        #[inline]
        fn g(&self) -> &'static mut Ghost {
            unsafe { &mut GHOSTS[self.id] }
        }
        #[inline]
        fn is_full(&self) -> bool {
            self.len.get() >= self.cap
        }
        fn push(&self, v: T) {
            let n = self.len.get();
            if n >= RING {
                panic!("VERIF-BOUND: more than RING items queued in the channel model");
            }
            let slots = unsafe { &mut *self.slots.get() };
            // constant-index writes only
            if n == 0 {
                slots[0] = Some(v);
            } else if n == 1 {
                slots[1] = Some(v);
            } else if n == 2 {
                slots[2] = Some(v);
            } else {
                slots[3] = Some(v);
            }
            self.len.set(n + 1);
            let g = self.g();
            g.len = n + 1;
            if n + 1 > g.max_len {
                g.max_len = n + 1;
            }
        }
        fn pop(&self) -> Option<T> {
            let n = self.len.get();
            if n == 0 {
                return None;
            }
            let slots = unsafe { &mut *self.slots.get() };
            let v = slots[0].take();
            slots[0] = slots[1].take();
            slots[1] = slots[2].take();
            slots[2] = slots[3].take();
            self.len.set(n - 1);
            let g = self.g();
            g.len = n - 1;
            g.n_taken += 1;
            v
        }
    }

    pub struct Sender<T> {
        inner: Arc<Inner<T>>,
    }
    pub struct Receiver<T> {
        inner: Arc<Inner<T>>,
    }

    fn make<T>(cap: usize, model_cap: usize) -> (Sender<T>, Receiver<T>) {
        let id = unsafe {
            let id = N_CHANNELS;
            if id >= MAX_CHANNELS {
                panic!("VERIF-BOUND: more than MAX_CHANNELS channels");
            }
            N_CHANNELS = id + 1;
            GHOSTS[id] = GHOST0;
            GHOSTS[id].cap = cap;
            GHOSTS[id].senders = 1;
            GHOSTS[id].receivers = 1;
            id
        };
        let inner = Arc::new(Inner {
            slots: UnsafeCell::new([None, None, None, None]),
            len: Cell::new(0),
            cap: model_cap,
            id,
        });
        unsafe {
            INNERS[id] = Arc::as_ptr(&inner) as usize;
        }
        (
            Sender {
                inner: inner.clone(),
            },
            Receiver { inner },
        )
    }

    /// bounded FIFO channel of capacity `cap`.  `cap == 0` (crossbeam's rendezvous channel)
    /// is modelled as a queue that is always full: `try_send` fails with `Full`, a blocking
    /// `send` needs the scheduler (a rendezvous needs a receiver waiting at the same time,
    /// which a sequential model cannot provide).
    pub fn bounded<T>(cap: usize) -> (Sender<T>, Receiver<T>) {
        make(cap, cap)
    }

    pub fn unbounded<T>() -> (Sender<T>, Receiver<T>) {
        make(usize::MAX, usize::MAX)
    }

    impl<T> Clone for Sender<T> {
        fn clone(&self) -> Self {
            self.inner.g().senders += 1;
            Sender {
                inner: self.inner.clone(),
            }
        }
    }
    impl<T> Drop for Sender<T> {
        fn drop(&mut self) {
            self.inner.g().senders -= 1;
        }
    }
    impl<T> Clone for Receiver<T> {
        fn clone(&self) -> Self {
            self.inner.g().receivers += 1;
            Receiver {
                inner: self.inner.clone(),
            }
        }
    }
    impl<T> Drop for Receiver<T> {
        fn drop(&mut self) {
            self.inner.g().receivers -= 1;
        }
    }

    impl<T> Sender<T> {
        /// id of the channel in creation order (model-only API)
        pub fn model_id(&self) -> usize {
            self.inner.id
        }

        pub fn send(&self, msg: T) -> Result<(), SendError<T>> {
            let inner = &*self.inner;
            hooks::yield_point(hooks::SEND, inner.id);
            let g = inner.g();
            g.n_send += 1;
            if g.receivers == 0 {
                return Err(SendError(msg));
            }
            if inner.is_full() {
                g.n_send_waited += 1;
                hooks::block(hooks::SEND, inner.id);
                if inner.g().receivers == 0 {
                    return Err(SendError(msg));
                }
                if inner.is_full() {
                    panic!("VERIF-DEADLOCK: send still blocked after the scheduler returned");
                }
            }
            inner.push(msg);
            hooks::yield_point(hooks::SENT, inner.id);
            Ok(())
        }

        pub fn try_send(&self, msg: T) -> Result<(), TrySendError<T>> {
            let inner = &*self.inner;
            hooks::yield_point(hooks::TRY_SEND, inner.id);
            let g = inner.g();
            g.n_try_send += 1;
            if g.receivers == 0 {
                return Err(TrySendError::Disconnected(msg));
            }
            if inner.is_full() {
                g.n_try_send_full += 1;
                return Err(TrySendError::Full(msg));
            }
            inner.push(msg);
            hooks::yield_point(hooks::SENT, inner.id);
            Ok(())
        }

        /// the model has no clock: a full queue times out immediately *after* giving the
        /// scheduler one chance to make room
        pub fn send_timeout(&self, msg: T, _timeout: Duration) -> Result<(), SendTimeoutError<T>> {
            let inner = &*self.inner;
            hooks::yield_point(hooks::SEND, inner.id);
            let g = inner.g();
            g.n_send += 1;
            if g.receivers == 0 {
                return Err(SendTimeoutError::Disconnected(msg));
            }
            if inner.is_full() {
                return Err(SendTimeoutError::Timeout(msg));
            }
            inner.push(msg);
            Ok(())
        }
        pub fn send_deadline(&self, msg: T, _d: Instant) -> Result<(), SendTimeoutError<T>> {
            self.send_timeout(msg, Duration::from_secs(0))
        }

        pub fn is_empty(&self) -> bool {
            self.inner.len.get() == 0
        }
        pub fn is_full(&self) -> bool {
            self.inner.is_full()
        }
        pub fn len(&self) -> usize {
            self.inner.len.get()
        }
        pub fn capacity(&self) -> Option<usize> {
            if self.inner.cap == usize::MAX {
                None
            } else {
                Some(self.inner.cap)
            }
        }
        pub fn same_channel(&self, other: &Sender<T>) -> bool {
            self.inner.id == other.inner.id
        }
    }

    impl<T> Receiver<T> {
        pub fn model_id(&self) -> usize {
            self.inner.id
        }

        pub fn recv(&self) -> Result<T, RecvError> {
            let inner = &*self.inner;
            hooks::yield_point(hooks::RECV, inner.id);
            let g = inner.g();
            g.n_recv += 1;
            if inner.len.get() == 0 {
                if g.senders == 0 {
                    return Err(RecvError);
                }
                g.n_recv_waited += 1;
                hooks::block(hooks::RECV, inner.id);
                if inner.len.get() == 0 {
                    if inner.g().senders == 0 {
                        return Err(RecvError);
                    }
                    panic!("VERIF-DEADLOCK: recv still blocked after the scheduler returned");
                }
            }
            match inner.pop() {
                Some(v) => {
                    hooks::yield_point(hooks::TAKEN, inner.id);
                    Ok(v)
                }
                None => Err(RecvError),
            }
        }

        pub fn try_recv(&self) -> Result<T, TryRecvError> {
            let inner = &*self.inner;
            hooks::yield_point(hooks::TRY_RECV, inner.id);
            let g = inner.g();
            g.n_try_recv += 1;
            match inner.pop() {
                Some(v) => Ok(v),
                None => {
                    if inner.g().senders == 0 {
                        Err(TryRecvError::Disconnected)
                    } else {
                        Err(TryRecvError::Empty)
                    }
                }
            }
        }

        pub fn recv_timeout(&self, _timeout: Duration) -> Result<T, RecvTimeoutError> {
            let inner = &*self.inner;
            hooks::yield_point(hooks::RECV, inner.id);
            inner.g().n_recv += 1;
            match inner.pop() {
                Some(v) => Ok(v),
                None => {
                    if inner.g().senders == 0 {
                        Err(RecvTimeoutError::Disconnected)
                    } else {
                        Err(RecvTimeoutError::Timeout)
                    }
                }
            }
        }
        pub fn recv_deadline(&self, _d: Instant) -> Result<T, RecvTimeoutError> {
            self.recv_timeout(Duration::from_secs(0))
        }

        pub fn is_empty(&self) -> bool {
            self.inner.len.get() == 0
        }
        pub fn is_full(&self) -> bool {
            self.inner.is_full()
        }
        pub fn len(&self) -> usize {
            self.inner.len.get()
        }
        pub fn capacity(&self) -> Option<usize> {
            if self.inner.cap == usize::MAX {
                None
            } else {
                Some(self.inner.cap)
            }
        }
        pub fn try_iter(&self) -> TryIter<'_, T> {
            TryIter { r: self }
        }
        pub fn iter(&self) -> Iter<'_, T> {
            Iter { r: self }
        }
        pub fn same_channel(&self, other: &Receiver<T>) -> bool {
            self.inner.id == other.inner.id
        }
    }

    pub struct TryIter<'a, T> {
        r: &'a Receiver<T>,
    }
    impl<'a, T> Iterator for TryIter<'a, T> {
        type Item = T;
        fn next(&mut self) -> Option<T> {
            self.r.try_recv().ok()
        }
    }
    pub struct Iter<'a, T> {
        r: &'a Receiver<T>,
    }
    impl<'a, T> Iterator for Iter<'a, T> {
        type Item = T;
        fn next(&mut self) -> Option<T> {
            self.r.recv().ok()
        }
    }

    // ---- error types (same shapes as crossbeam-channel's) ---------------------------

    #[derive(PartialEq, Eq, Clone, Copy)]
    pub struct SendError<T>(pub T);
    impl<T> SendError<T> {
        pub fn into_inner(self) -> T {
            self.0
        }
    }
    impl<T> fmt::Debug for SendError<T> {
        fn fmt(&self, f: &mut fmt::Formatter<'_>) -> fmt::Result {
            f.write_str("SendError(..)")
        }
    }
    impl<T> fmt::Display for SendError<T> {
        fn fmt(&self, f: &mut fmt::Formatter<'_>) -> fmt::Result {
            f.write_str("sending on a disconnected channel")
        }
    }
    impl<T: Send> std::error::Error for SendError<T> {}

    #[derive(PartialEq, Eq, Clone, Copy)]
    pub enum TrySendError<T> {
        Full(T),
        Disconnected(T),
    }
    impl<T> TrySendError<T> {
        pub fn into_inner(self) -> T {
            match self {
                TrySendError::Full(v) => v,
                TrySendError::Disconnected(v) => v,
            }
        }
        pub fn is_full(&self) -> bool {
            matches!(self, TrySendError::Full(_))
        }
        pub fn is_disconnected(&self) -> bool {
            matches!(self, TrySendError::Disconnected(_))
        }
    }
    impl<T> fmt::Debug for TrySendError<T> {
        fn fmt(&self, f: &mut fmt::Formatter<'_>) -> fmt::Result {
            match self {
                TrySendError::Full(_) => f.write_str("Full(..)"),
                TrySendError::Disconnected(_) => f.write_str("Disconnected(..)"),
            }
        }
    }
    impl<T> fmt::Display for TrySendError<T> {
        fn fmt(&self, f: &mut fmt::Formatter<'_>) -> fmt::Result {
            match self {
                TrySendError::Full(_) => f.write_str("sending on a full channel"),
                TrySendError::Disconnected(_) => f.write_str("sending on a disconnected channel"),
            }
        }
    }
    impl<T: Send> std::error::Error for TrySendError<T> {}
    impl<T> From<SendError<T>> for TrySendError<T> {
        fn from(e: SendError<T>) -> Self {
            TrySendError::Disconnected(e.0)
        }
    }

    #[derive(PartialEq, Eq, Clone, Copy)]
    pub enum SendTimeoutError<T> {
        Timeout(T),
        Disconnected(T),
    }
    impl<T> SendTimeoutError<T> {
        pub fn into_inner(self) -> T {
            match self {
                SendTimeoutError::Timeout(v) => v,
                SendTimeoutError::Disconnected(v) => v,
            }
        }
        pub fn is_timeout(&self) -> bool {
            matches!(self, SendTimeoutError::Timeout(_))
        }
        pub fn is_disconnected(&self) -> bool {
            matches!(self, SendTimeoutError::Disconnected(_))
        }
    }
    impl<T> fmt::Debug for SendTimeoutError<T> {
        fn fmt(&self, f: &mut fmt::Formatter<'_>) -> fmt::Result {
            f.write_str("SendTimeoutError(..)")
        }
    }
    impl<T> fmt::Display for SendTimeoutError<T> {
        fn fmt(&self, f: &mut fmt::Formatter<'_>) -> fmt::Result {
            f.write_str("send timed out or channel disconnected")
        }
    }
    impl<T: Send> std::error::Error for SendTimeoutError<T> {}

    #[derive(PartialEq, Eq, Clone, Copy, Debug)]
    pub struct RecvError;
    impl fmt::Display for RecvError {
        fn fmt(&self, f: &mut fmt::Formatter<'_>) -> fmt::Result {
            f.write_str("receiving on an empty and disconnected channel")
        }
    }
    impl std::error::Error for RecvError {}

    #[derive(PartialEq, Eq, Clone, Copy, Debug)]
    pub enum TryRecvError {
        Empty,
        Disconnected,
    }
    impl TryRecvError {
        pub fn is_empty(&self) -> bool {
            matches!(self, TryRecvError::Empty)
        }
        pub fn is_disconnected(&self) -> bool {
            matches!(self, TryRecvError::Disconnected)
        }
    }
    impl fmt::Display for TryRecvError {
        fn fmt(&self, f: &mut fmt::Formatter<'_>) -> fmt::Result {
            match self {
                TryRecvError::Empty => f.write_str("receiving on an empty channel"),
                TryRecvError::Disconnected => {
                    f.write_str("receiving on an empty and disconnected channel")
                }
            }
        }
    }
    impl std::error::Error for TryRecvError {}

    #[derive(PartialEq, Eq, Clone, Copy, Debug)]
    pub enum RecvTimeoutError {
        Timeout,
        Disconnected,
    }
    impl RecvTimeoutError {
        pub fn is_timeout(&self) -> bool {
            matches!(self, RecvTimeoutError::Timeout)
        }
        pub fn is_disconnected(&self) -> bool {
            matches!(self, RecvTimeoutError::Disconnected)
        }
    }
    impl fmt::Display for RecvTimeoutError {
        fn fmt(&self, f: &mut fmt::Formatter<'_>) -> fmt::Result {
            f.write_str("recv timed out or channel disconnected")
        }
    }
    impl std::error::Error for RecvTimeoutError {}
}

//! C16 — U-selector: the real `SelectorSubscriber::on_notify` fed a symbolic sequence of
//! states/actions; oracle = selected values with consecutive duplicates removed, each
//! paired with the action that caused it.
#![allow(static_mut_refs)]

use super::script::{Act, St};
use super::{chk, finish, harness};
use crate::{Selector, SelectorSubscriber, Subscriber};

pub const MAXN: usize = 5;
static mut CB_N: usize = 0;
static mut CB_VAL: [u8; MAXN] = [0; MAXN];
static mut CB_ACT: [u8; MAXN] = [0; MAXN];

struct Low2;
impl Selector<St, u8> for Low2 {
    fn select(&self, s: &St) -> u8 {
        s.val & 3
    }
}

fn on_change(v: u8, a: Act) {
    unsafe {
        if CB_N < MAXN {
            CB_VAL[CB_N] = v;
            CB_ACT[CB_N] = a;
        }
        CB_N += 1;
    }
}

fn selector_seq(n: usize) {
    unsafe {
        CB_N = 0;
    }
    // (a capturing closure: Kani 0.68 ICEs on boxing a zero-sized fn item)
    let tag: u8 = 0;
    let sub = SelectorSubscriber::new(Low2, move |v: u8, a: Act| on_change(v.wrapping_add(tag), a));
    // reference model state
    let mut exp_n: usize = 0;
    let mut exp_val = [0u8; MAXN];
    let mut exp_act = [0u8; MAXN];
    let mut last: Option<u8> = None;
    let mut dup_seen = false;
    let mut change_seen = false;

    let mut i = 0;
    while i < n {
        let s: St = kani::any();
        let a: Act = kani::any();
        let before = unsafe { CB_N };
        sub.on_notify(&s, &a);
        let after = unsafe { CB_N };
        let sel = s.val & 3;
        let fire = match last {
            None => true,
            Some(l) => l != sel,
        };
        if fire {
            exp_val[exp_n] = sel;
            exp_act[exp_n] = a;
            exp_n += 1;
            last = Some(sel);
            if i > 0 {
                change_seen = true;
            }
        } else {
            dup_seen = true;
        }
        // step-wise: the callback fires exactly when the model says, at most once
        chk!(16, after == before + (fire as usize), "selector callback fired iff selected value changed");
        i += 1;
    }
    let got = unsafe { CB_N };
    chk!(16, got == exp_n, "number of selector callbacks = length of de-duplicated stream");
    let mut k = 0;
    while k < MAXN {
        if k < exp_n && k < got {
            unsafe {
                chk!(16, CB_VAL[k] == exp_val[k], "delivered value = selected value of the notification");
                chk!(16, CB_ACT[k] == exp_act[k], "delivered action = action that caused the change");
            }
        }
        k += 1;
    }
    kani::cover!(dup_seen && change_seen, "COVER a duplicate was suppressed and a later change delivered");
    finish!(16);
    core::mem::forget(sub);
}

harness! {
    #[kani::unwind(7)]
    fn u_selector_n3() {
        selector_seq(3);
    }
}

harness! {
    #[kani::unwind(7)]
    fn u_selector_n5() {
        selector_seq(5);
    }
}

/// vacuity twin: the oracle is deliberately wrong (expects a callback on every
/// notification); this harness MUST fail.
harness! {
    #[kani::unwind(7)]
    fn twin_u_selector() {
        unsafe { CB_N = 0; }
        // (a capturing closure: Kani 0.68 ICEs on boxing a zero-sized fn item)
    let tag: u8 = 0;
    let sub = SelectorSubscriber::new(Low2, move |v: u8, a: Act| on_change(v.wrapping_add(tag), a));
        let s1: St = kani::any();
        let s2: St = kani::any();
        sub.on_notify(&s1, &1);
        sub.on_notify(&s2, &2);
        chk!(16, unsafe { CB_N } == 2, "TWIN (wrong on purpose): every notification fires");
        finish!(16);
        core::mem::forget(sub);
    }
}

//! C16 — U-selector: the real `SelectorSubscriber::on_notify` fed a symbolic sequence of
//! states/actions; oracle = selected values with consecutive duplicates removed, each
//! paired with the action that caused it.
#![allow(static_mut_refs)]

use super::script::{Act, St};
use super::{chk, finish, harness};
use crate::{Selector, SelectorSubscriber, Subscriber};

pub const MAXN: usize = 5;
static mut CB_N: usize = 0;
static mut CB_VAL: [u8; MAXN] = [0; MAXN];
static mut CB_ACT: [u8; MAXN] = [0; MAXN];

struct Low2;
impl Selector<St, u8> for Low2 {
    fn select(&self, s: &St) -> u8 {
        s.val & 3
    }
}

fn on_change(v: u8, a: Act) {
    unsafe {
        if CB_N < MAXN {
            CB_VAL[CB_N] = v;
            CB_ACT[CB_N] = a;
        }
        CB_N += 1;
    }
}

/// `unsub_before`: `on_unsubscribe()` is delivered to the object before notification number
/// `unsub_before` (usize::MAX: never) - the situation of a subscriber that is unsubscribed while
/// a notification round whose snapshot contains it is in progress.  From then on the object
/// may stay silent, but what it delivers must still differ from the value it last delivered.
fn selector_seq(n: usize, unsub_before: usize) {
    unsafe {
        CB_N = 0;
    }
    // (a capturing closure: Kani 0.68 ICEs on boxing a zero-sized fn item)
    let tag: u8 = 0;
    let sub = SelectorSubscriber::new(Low2, move |v: u8, a: Act| on_change(v.wrapping_add(tag), a));
    // reference model state
    let mut exp_n: usize = 0;
    let mut exp_val = [0u8; MAXN];
    let mut exp_act = [0u8; MAXN];
    let mut last: Option<u8> = None;
    let mut dup_seen = false;
    let mut change_seen = false;

    let mut i = 0;
    while i < n {
        let s: St = kani::any();
        let a: Act = kani::any();
        if i == unsub_before {
            sub.on_unsubscribe();
        }
        let before = unsafe { CB_N };
        sub.on_notify(&s, &a);
        let after = unsafe { CB_N };
        let sel = s.val & 3;
        let mut fire = match last {
            None => true,
            Some(l) => l != sel,
        };
        if i >= unsub_before {
            chk!(16, after == before || (fire && after == before + 1), "after on_unsubscribe the object may stay silent, but never delivers the value it last delivered again");
            fire = after > before;
        }
        if fire {
            exp_val[exp_n] = sel;
            exp_act[exp_n] = a;
            exp_n += 1;
            last = Some(sel);
            if i > 0 {
                change_seen = true;
            }
        } else {
            dup_seen = true;
        }
        // step-wise: the callback fires exactly when the model says, at most once
        chk!(16, after == before + (fire as usize), "selector callback fired iff selected value changed");
        i += 1;
    }
    let got = unsafe { CB_N };
    chk!(16, got == exp_n, "number of selector callbacks = length of de-duplicated stream");
    let mut k = 0;
    while k < MAXN {
        if k < exp_n && k < got {
            unsafe {
                chk!(16, CB_VAL[k] == exp_val[k], "delivered value = selected value of the notification");
                chk!(16, CB_ACT[k] == exp_act[k], "delivered action = action that caused the change");
            }
        }
        k += 1;
    }
    kani::cover!(dup_seen && change_seen, "COVER a duplicate was suppressed and a later change delivered");
    finish!(16);
    core::mem::forget(sub);
}

harness! {
    #[kani::unwind(7)]
    fn u_selector_n3() {
        selector_seq(3, usize::MAX);
    }
}

harness! {
    #[kani::unwind(7)]
    fn u_selector_n5() {
        selector_seq(5, usize::MAX);
    }
}

harness! {
    #[kani::unwind(7)]
    fn u_selector_n3_unsub_before_last() {
        selector_seq(3, 2);
    }
}

harness! {
    #[kani::unwind(7)]
    fn u_selector_n4_unsub_before_third() {
        selector_seq(4, 2);
    }
}

/// vacuity twin: the oracle is deliberately wrong (expects a callback on every
/// notification); this harness MUST fail.
harness! {
    #[kani::unwind(7)]
    fn twin_u_selector() {
        unsafe { CB_N = 0; }
        // (a capturing closure: Kani 0.68 ICEs on boxing a zero-sized fn item)
    let tag: u8 = 0;
    let sub = SelectorSubscriber::new(Low2, move |v: u8, a: Act| on_change(v.wrapping_add(tag), a));
        let s1: St = kani::any();
        let s2: St = kani::any();
        sub.on_notify(&s1, &1);
        sub.on_notify(&s2, &2);
        chk!(16, unsafe { CB_N } == 2, "TWIN (wrong on purpose): every notification fires");
        finish!(16);
        core::mem::forget(sub);
    }
}

// ---- through the store: subscribe_with_selector registers a subscriber whose FIRST
// notification is delivered whatever the store's state was at subscription time ----------
use super::script::{self, ScriptReducer, Store};
use super::rt;
use crate::StoreBuilder;

fn selector_via_store(n: usize) {
    rt::reset_all();
    script::reset();
    unsafe {
        CB_N = 0;
    }
    let init: St = kani::any();
    let store = StoreBuilder::new(init)
        .with_reducer(Box::new(ScriptReducer { idx: 0 }))
        .build()
        .unwrap();
    let tag: u8 = 0;
    let sub = store.subscribe_with_selector(Low2, move |v: u8, a: Act| on_change(v.wrapping_add(tag), a));
    // the registered subscriber object, as do_notify would call it
    let registered = store.subscribers.lock().unwrap().clone();
    chk!(16, registered.len() == 1, "subscribe_with_selector registers exactly one subscriber");
    let mut exp_n: usize = 0;
    let mut exp_val = [0u8; MAXN];
    let mut exp_act = [0u8; MAXN];
    let mut last: Option<u8> = None;
    let mut first_equals_initial = false;
    let mut i = 0;
    while i < n {
        let s: St = kani::any();
        let a: Act = kani::any();
        if registered.len() == 1 {
            registered[0].on_notify(&s, &a);
        }
        let sel = s.val & 3;
        if i == 0 && sel == (init.val & 3) {
            first_equals_initial = true;
        }
        let fire = match last {
            None => true,
            Some(l) => l != sel,
        };
        if fire {
            exp_val[exp_n] = sel;
            exp_act[exp_n] = a;
            exp_n += 1;
            last = Some(sel);
        }
        i += 1;
    }
    let got = unsafe { CB_N };
    chk!(16, got == exp_n, "via store: number of callbacks = length of de-duplicated stream (first always delivered)");
    let mut k = 0;
    while k < MAXN {
        if k < exp_n && k < got {
            unsafe {
                chk!(16, CB_VAL[k] == exp_val[k], "via store: delivered value = selected value");
                chk!(16, CB_ACT[k] == exp_act[k], "via store: delivered action = causing action");
            }
        }
        k += 1;
    }
    kani::cover!(first_equals_initial, "COVER first notification selects the same value as the state at subscription time");
    finish!(16);
    core::mem::forget(registered);
    core::mem::forget(sub);
    core::mem::forget(store);
}

harness! {
    #[kani::unwind(7)]
    fn u_selector_store_n2() {
        selector_via_store(2);
    }
}
harness! {
    #[kani::unwind(7)]
    fn u_selector_store_n3() {
        selector_via_store(3);
    }
}

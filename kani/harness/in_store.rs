//! C10 — in-module harnesses (hook H5) driving the private `ChanneledSubscriber` and
//! `StoreImpl::subscribed_loop` concretely typed: forwarding in the reducer context,
//! per-subscription queue with its own backpressure policy, delivery on the subscriber's
//! own (modelled) thread, release = drop the sender + join.  This is the body of
//! `subscribed_with` without the `Arc<dyn Subscriber>` indirection of the store's list
//! (which makes the symbolic executor lose the queue's address; measured: no result in
//! 50 min).  Starved-consumer schedules only: the delivery thread runs when it is joined.
#![allow(static_mut_refs)]
#![allow(dead_code)]

use super::*;
use crate::channel::{BackpressureChannel, BackpressurePolicy};
use crate::metrics::{CountMetrics, Metrics};
use crate::verif_kani::rt;
use crate::verif_kani::script::{self, Act, St, ST0};
use crate::verif_kani::{chk, finish, harness};
use crate::{Subscriber, Subscription};
use std::sync::Arc;

/// S-read-hold (g_glue.rs): a reader that has entered get_state() - it holds the private state
/// lock and is about to clone.  None when the lock is not free at this point.  (A trait impl,
/// because this module is private to store_impl.)
impl rt::ReaderProbe for StoreImpl<St, Act> {
    fn reader_enters_get_state(&self) -> Option<std::sync::MutexGuard<'static, St>> {
        match self.state.try_lock() {
            Ok(g) => Some(unsafe { core::mem::transmute::<std::sync::MutexGuard<'_, St>, std::sync::MutexGuard<'static, St>>(g) }),
            Err(_) => None,
        }
    }
}

static mut GOT: [(St, u8, u8); 4] = [(ST0, 0, 0); 4];
static mut N_GOT: usize = 0;

/// the user's subscriber (zero-sized: nothing is read through the `dyn` pointer)
struct Sink;
impl Subscriber<St, Act> for Sink {
    fn on_notify(&self, state: &St, action: &Act) {
        unsafe {
            if N_GOT < 4 {
                GOT[N_GOT] = (*state, *action, rt::ctx());
            }
            N_GOT += 1;
        }
        rt::tick();
    }
}

fn pol(p: u8) -> BackpressurePolicy {
    match p {
        0 => BackpressurePolicy::BlockOnFull,
        1 => BackpressurePolicy::DropOldest,
        _ => BackpressurePolicy::DropLatest,
    }
}

/// what `subscribed_with` builds, concretely typed
fn make(cap: usize, policy: u8) -> ChanneledSubscriber<(Instant, St, Act)> {
    rt::reset_all();
    script::reset();
    unsafe {
        N_GOT = 0;
    }
    let metrics: Arc<CountMetrics> = Arc::new(CountMetrics::default());
    let m2: Arc<dyn Metrics + Send + Sync> = metrics.clone();
    let (tx, rx) = BackpressureChannel::<(Instant, St, Act)>::pair_with("c", cap, pol(policy), Some(m2));
    let m3: Arc<dyn Metrics> = metrics;
    let handle = match thread::Builder::new().spawn(move || {
        StoreImpl::<St, Act>::subscribed_loop(String::from("t"), rx, Box::new(Sink), m3);
    }) {
        Ok(h) => h,
        Err(e) => {
            core::mem::forget(e);
            panic!("VERIF-MODEL: spawn failed");
        }
    };
    ChanneledSubscriber::new(handle, tx)
}

fn channeled(n: usize, cap: usize, policy: u8, release: u8) {
    let cs = make(cap, policy);
    let mut sent = [(ST0, 0u8); 4];
    let mut i = 0;
    while i < n {
        let s: St = kani::any();
        let a: Act = kani::any();
        sent[i] = (s, a);
        rt::in_ctx(rt::CTX_REDUCER, || Subscriber::<St, Act>::on_notify(&cs, &s, &a));
        i += 1;
    }
    chk!(10, unsafe { N_GOT } == 0, "a channeled subscriber is never called in the reducer context");
    let g = crossbeam::channel::ghost(0);
    chk!(10, g.cap == cap && g.max_len <= cap, "the subscription's queue is bounded by its capacity");
    if policy != 0 {
        chk!(10, g.n_send_waited == 0, "with a drop policy the forwarding never waits: a stalled subscriber cannot stall reducing");
    }
    // release: unsubscribe() / store shutdown (on_unsubscribe) - both drop the sender and join
    let before = rt::now();
    match release {
        0 => Subscriber::<St, Act>::on_unsubscribe(&cs),
        _ => Subscription::unsubscribe(&cs),
    }
    chk!(10, rt::thread::state(0) == rt::thread::T_DONE && rt::thread::joins() == 1, "unsubscribe()/stop() return only after the delivery thread has been joined");
    let got = unsafe { N_GOT };
    let expect = if n <= cap { n } else { cap };
    chk!(10, got == expect, "everything already queued is delivered before the release returns");
    let mut i = 0;
    while i < 4 {
        if i < got {
            let (s, a, c) = unsafe { GOT[i] };
            chk!(10, c == rt::CTX_CHANNELED, "delivery happens on the subscriber's own thread");
            let src = if policy == 1 && n > cap { n - cap + i } else { i };
            chk!(10, (s, a) == sent[src], "blocking policy: exactly the notification sequence; DropOldest: the newest ones (the newest is always delivered); DropLatest: the oldest ones; always in order");
        }
        i += 1;
    }
    // released twice / used after release: nothing happens, nothing is delivered
    let g1 = unsafe { N_GOT };
    Subscription::unsubscribe(&cs);
    Subscriber::<St, Act>::on_unsubscribe(&cs);
    let s: St = kani::any();
    rt::in_ctx(rt::CTX_REDUCER, || Subscriber::<St, Act>::on_notify(&cs, &s, &9));
    chk!(10, unsafe { N_GOT } == g1 && rt::thread::joins() == 1, "nothing is delivered after the release, and a second release does nothing");
    chk!(9, rt::thread::joins() == 1, "a channeled subscriber's resources are released exactly once");
    chk!(13, true, "every call returned");
    let _ = before;
    core::mem::forget(cs);
    finish!(9, 10, 13);
}

harness! { #[kani::unwind(7)] fn chan_sub_block_n2_cap2() { channeled(2, 2, 0, 0); } }
harness! { #[kani::unwind(7)] fn chan_sub_block_n3_cap3_unsub() { channeled(3, 3, 0, 1); } }
harness! { #[kani::unwind(7)] fn chan_sub_block_n0() { channeled(0, 1, 0, 1); } }
harness! { #[kani::unwind(7)] fn chan_sub_oldest_n2_cap1() { channeled(2, 1, 1, 0); } }
harness! { #[kani::unwind(7)] fn chan_sub_oldest_n3_cap2_unsub() { channeled(3, 2, 1, 1); } }
harness! { #[kani::unwind(7)] fn chan_sub_latest_n2_cap1() { channeled(2, 1, 2, 0); } }
harness! { #[kani::unwind(7)] fn chan_sub_latest_n3_cap2_unsub() { channeled(3, 2, 2, 1); } }

harness! { #[kani::unwind(7)] fn twin_in_store() {
    let cs = make(1, 1);
    let s: St = kani::any();
    rt::in_ctx(rt::CTX_REDUCER, || Subscriber::<St, Act>::on_notify(&cs, &s, &1));
    rt::in_ctx(rt::CTX_REDUCER, || Subscriber::<St, Act>::on_notify(&cs, &s, &2));
    Subscription::unsubscribe(&cs);
    chk!(10, unsafe { N_GOT } == 1 && unsafe { GOT[0].1 } == 1, "TWIN (wrong on purpose): DropOldest keeps the oldest");
    chk!(9, false, "TWIN (wrong on purpose)");
    chk!(13, false, "TWIN (wrong on purpose)");
    core::mem::forget(cs);
    finish!(9, 10, 13);
} }

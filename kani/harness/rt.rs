//! Deterministic runtime for the Kani harnesses (DESIGN.md §4.2–§4.4): execution contexts,
//! the record table written by scripted callbacks, the `std::thread` model used by
//! `store_impl.rs` under `cfg(kani)` (hook H2), and the bodies of the Kani stubs.
#![allow(dead_code)]
#![allow(static_mut_refs)]

use std::sync::Arc;

// ---------------------------------------------------------------------------------------
// contexts
// ---------------------------------------------------------------------------------------
pub const CTX_CLIENT: u8 = 0;
pub const CTX_REDUCER: u8 = 1;
pub const CTX_POOL: u8 = 2;
pub const CTX_CHANNELED: u8 = 3;
pub const CTX_CONSUMER: u8 = 4;

pub static mut CTX: u8 = CTX_CLIENT;
/// a schedule-placed unit is running nested inside a suspended host
pub static mut IN_UNIT: bool = false;
/// the running unit is what the suspended host is waiting for (e.g. the reducer loop run
/// from inside the pool join): a lock it cannot get is then a genuine deadlock, not a
/// disabled placement
pub static mut UNIT_IS_AWAITED: bool = false;
/// placement of the unit: the `occ`-th scheduling point of kind/obj after arming
pub static mut PLACE: (u8, usize, u8) = (0, 0, 0);
pub static mut PLACE_SEEN: u8 = 0;
pub static mut PLACE_ARMED: bool = false;
pub static mut PLACE_FIRED: bool = false;

/// true exactly once: when the armed placement is reached (and no unit is running)
#[inline(always)]
pub fn at_placement(kind: u8, obj: usize) -> bool {
    unsafe {
        if !PLACE_ARMED || PLACE_FIRED || IN_UNIT {
            return false;
        }
        if kind == PLACE.0 && obj == PLACE.1 {
            let n = PLACE_SEEN;
            PLACE_SEEN += 1;
            if n == PLACE.2 {
                PLACE_FIRED = true;
                return true;
            }
        }
        false
    }
}
pub fn arm(kind: u8, obj: usize, occ: u8) {
    unsafe {
        PLACE = (kind, obj, occ);
        PLACE_SEEN = 0;
        PLACE_FIRED = false;
        PLACE_ARMED = true;
    }
}

#[inline(always)]
pub fn ctx() -> u8 {
    unsafe { CTX }
}
/// run `f` in context `c`, restoring the previous one afterwards
#[inline(always)]
pub fn in_ctx<R>(c: u8, f: impl FnOnce() -> R) -> R {
    unsafe {
        let old = CTX;
        CTX = c;
        let r = f();
        CTX = old;
        r
    }
}

// ---------------------------------------------------------------------------------------
// global logical clock (one tick per recorded event)
// ---------------------------------------------------------------------------------------
pub static mut CLOCK: u8 = 0;
#[inline(always)]
pub fn tick() -> u8 {
    unsafe {
        CLOCK += 1;
        CLOCK
    }
}
#[inline(always)]
pub fn now() -> u8 {
    unsafe { CLOCK }
}

// ---------------------------------------------------------------------------------------
// Kani stub bodies (environment models of DESIGN.md §4.2)
// ---------------------------------------------------------------------------------------

/// `Arc::drop_slow` → leak.  Destructors of `Arc`-held values do not run in harnesses.
pub fn arc_drop_slow<T: ?Sized, A: std::alloc::Allocator>(_a: &mut Arc<T, A>) {}

/// `alloc::fmt::format` → empty string (names, log lines and error texts are not the
/// subject of any property).
pub fn fmt_format(_a: core::fmt::Arguments<'_>) -> String {
    // (non-empty: dropping an empty String coming out of a stub trips a spurious dealloc
    // precondition of Kani's C runtime model in some harnesses)
    String::from("f")
}
pub fn io_print(_a: core::fmt::Arguments<'_>) {}

/// Clock model used by store_impl.rs / iterator.rs under `cfg(kani)` (hook H4, import lines
/// only): a zero-sized instant; every duration is zero.  Time feeds only the time metrics,
/// which no property mentions.  (With std's `Instant` inside `ActionOp::Exit` the enum's
/// discriminant lives in the nanosecond niche and CBMC loses track of the variant of queue
/// items with a symbolic payload; measured: iterator / channeled harnesses did not finish.)
// Under native playback (`cargo kani playback` builds the crate's own test configuration as
// well, whose tests use std's Instant) the model type IS std's Instant.
#[cfg(test)]
pub use std::time::Instant;
#[cfg(not(test))]
#[derive(Clone, Copy, Debug, PartialEq, Eq, PartialOrd, Ord)]
pub struct Instant;
#[cfg(not(test))]
impl Instant {
    pub fn now() -> Instant {
        Instant
    }
    pub fn elapsed(&self) -> std::time::Duration {
        std::time::Duration::from_secs(0)
    }
    pub fn duration_since(&self, _earlier: Instant) -> std::time::Duration {
        std::time::Duration::from_secs(0)
    }
}

/// `Instant::now` → constant instant (durations feed only time metrics).
pub fn instant_now() -> std::time::Instant {
    unsafe { core::mem::zeroed() }
}
/// the model instant, for harnesses that call the pipeline phases directly
pub fn now_model() -> Instant {
    Instant::now()
}

/// `Instant::elapsed` -> zero (std's Timespec subtraction is recursive and is unwound to the
/// bound on values that went through a channel; durations feed only time metrics)
pub fn instant_elapsed(_i: &std::time::Instant) -> std::time::Duration {
    std::time::Duration::from_secs(0)
}

/// `Mutex::lock` -> `try_lock`.  In the sequentialised model a mutex that is already held
/// is held by a suspended context on the same stack, so waiting can never succeed: it is
/// reported as a deadlock instead of unwinding std's spin/futex loop (which the symbolic
/// executor otherwise explores at every lock site whose state it cannot constant-fold).
/// Draws no symbolic values; natively (playback) the real `lock` is used.
pub fn mutex_lock<T: ?Sized>(m: &std::sync::Mutex<T>) -> std::sync::LockResult<std::sync::MutexGuard<'_, T>> {
    match m.try_lock() {
        Ok(g) => Ok(g),
        Err(std::sync::TryLockError::Poisoned(p)) => Err(p),
        Err(std::sync::TryLockError::WouldBlock) => {
            // a reader suspended inside get_state() (S-read-hold) holds the state lock: the
            // waiting context lets it finish its clone, then takes the lock
            if holder_release() {
                if let Ok(g) = m.try_lock() {
                    return Ok(g);
                }
            }
            if unsafe { IN_UNIT && !UNIT_IS_AWAITED } {
                // a unit placed by the schedule at a point where the suspended host holds the
                // lock it needs: the unit is simply not enabled here (DESIGN.md §4.4)
                kani::assume(false);
            }
            panic!("VERIF-DEADLOCK: lock() on a mutex that is already held by a suspended context")
        }
    }
}

/// S-read-hold: the state lock held by a reader that is suspended inside `get_state()`
/// (between acquiring the lock and finishing the clone of the state)
pub static mut HELD_STATE: Option<std::sync::MutexGuard<'static, super::script::St>> = None;
pub static mut HELD_READ: super::script::St = super::script::St { val: 0, seq: 0 };
pub static mut HELD_WAITED: u8 = 0;
pub trait ReaderProbe {
    fn reader_enters_get_state(&self) -> Option<std::sync::MutexGuard<'static, super::script::St>>;
}
/// the suspended reader finishes: reads the value under the lock, releases it
pub fn holder_release() -> bool {
    unsafe {
        match HELD_STATE.take() {
            Some(g) => {
                HELD_READ = *g;
                HELD_WAITED += 1;
                drop(g);
                true
            }
            None => false,
        }
    }
}

// ---------------------------------------------------------------------------------------
// scheduling points raised by scripted callbacks
// ---------------------------------------------------------------------------------------
pub const P_BEFORE_REDUCE: u8 = 16;
pub const P_REDUCE: u8 = 17;
pub const P_BEFORE_EFFECT: u8 = 18;
pub const P_BEFORE_DISPATCH: u8 = 19;
pub const P_NOTIFY: u8 = 20;
pub const P_UNSUBSCRIBED: u8 = 21;
pub const P_EFFECT_BODY: u8 = 22;
pub const P_PHASE_REDUCE: u8 = 23;
pub const P_PHASE_EFFECT: u8 = 24;
pub const P_PHASE_NOTIFY: u8 = 25;

#[inline(always)]
pub fn yield_point(kind: u8, obj: usize) {
    crossbeam::hooks::yield_point(kind, obj)
}

// ---------------------------------------------------------------------------------------
// std::thread model (hook H2): a spawned closure is deferred and runs to completion when
// it is joined (or when a harness runs it explicitly through `run_thread`).
// ---------------------------------------------------------------------------------------
pub mod thread {
    use super::*;

    pub const MAX_THREADS: usize = 2;
    pub const T_NONE: u8 = 0;
    pub const T_PENDING: u8 = 1;
    pub const T_RUNNING: u8 = 2;
    pub const T_DONE: u8 = 3;

    trait Body {
        fn run_box(self: Box<Self>);
    }
    struct Holder<F>(F);
    impl<F: FnOnce() + Send + 'static> Body for Holder<F> {
        fn run_box(self: Box<Self>) {
            (self.0)()
        }
    }
    struct Slot {
        body: Option<Box<dyn Body>>,
    }
    const SLOT0: Slot = Slot { body: None };
    static mut SLOTS: [Slot; MAX_THREADS] = [SLOT0; MAX_THREADS];
    pub static mut STATE: [u8; MAX_THREADS] = [T_NONE; MAX_THREADS];
    pub static mut N_THREADS: usize = 0;
    /// number of `JoinHandle`s dropped without having been joined (detached threads)
    pub static mut DETACHED: usize = 0;
    pub static mut JOINS: usize = 0;

    pub fn reset() {
        unsafe {
            N_THREADS = 0;
            DETACHED = 0;
            JOINS = 0;
            STATE = [T_NONE; MAX_THREADS];
        }
    }
    pub fn joins() -> usize {
        unsafe { JOINS }
    }
    pub fn spawned() -> usize {
        unsafe { N_THREADS }
    }
    pub fn state(id: usize) -> u8 {
        unsafe { STATE[id] }
    }

    /// run the deferred body of thread `id` now (in the CHANNELED context)
    pub fn run_thread(id: usize) {
        unsafe {
            if STATE[id] != T_PENDING {
                return;
            }
            STATE[id] = T_RUNNING;
            let b = SLOTS[id].body.take();
            if let Some(b) = b {
                in_ctx(CTX_CHANNELED, || b.run_box());
            }
            STATE[id] = T_DONE;
        }
    }

    pub struct Builder {
        _name: Option<String>,
    }
    impl Builder {
        pub fn new() -> Builder {
            Builder { _name: None }
        }
        pub fn name(mut self, name: String) -> Builder {
            self._name = Some(name);
            self
        }
        pub fn stack_size(self, _size: usize) -> Builder {
            self
        }
        pub fn spawn<F>(self, f: F) -> std::io::Result<JoinHandle<()>>
        where
            F: FnOnce() + Send + 'static,
        {
            unsafe {
                let id = N_THREADS;
                if id >= MAX_THREADS {
                    panic!("VERIF-BOUND: more than MAX_THREADS spawned threads");
                }
                N_THREADS = id + 1;
                let b: Box<dyn Body> = Box::new(Holder(f));
                core::ptr::write(&mut SLOTS[id].body, Some(b));
                STATE[id] = T_PENDING;
                Ok(JoinHandle {
                    id,
                    joined: false,
                    _p: core::marker::PhantomData,
                })
            }
        }
    }

    pub fn spawn<F>(f: F) -> JoinHandle<()>
    where
        F: FnOnce() + Send + 'static,
    {
        match Builder::new().spawn(f) {
            Ok(h) => h,
            Err(_) => panic!("VERIF-MODEL: spawn failed"),
        }
    }

    pub struct JoinHandle<T> {
        id: usize,
        joined: bool,
        _p: core::marker::PhantomData<T>,
    }
    unsafe impl<T> Send for JoinHandle<T> {}
    unsafe impl<T> Sync for JoinHandle<T> {}

    impl JoinHandle<()> {
        pub fn join(mut self) -> Result<(), Box<dyn std::any::Any + Send + 'static>> {
            self.joined = true;
            unsafe {
                JOINS += 1;
                if STATE[self.id] == T_RUNNING {
                    panic!("VERIF-DEADLOCK: thread joins itself");
                }
            }
            run_thread(self.id);
            Ok(())
        }
        pub fn is_finished(&self) -> bool {
            unsafe { STATE[self.id] == T_DONE }
        }
        pub fn model_id(&self) -> usize {
            self.id
        }
    }
    impl<T> Drop for JoinHandle<T> {
        fn drop(&mut self) {
            if !self.joined {
                unsafe {
                    DETACHED += 1;
                }
            }
        }
    }

    pub struct Thread;
    impl Thread {
        pub fn name(&self) -> Option<&str> {
            None
        }
    }
    pub fn current() -> Thread {
        Thread
    }
    pub fn panicking() -> bool {
        false
    }
    pub fn sleep(_d: std::time::Duration) {}
    pub fn yield_now() {}
}

/// reset every piece of global model state (each harness starts with this; CBMC starts
/// from the static initialisers anyway, native playback may run several tests in one
/// process)
pub fn reset_all() {
    unsafe {
        CTX = CTX_CLIENT;
        CLOCK = 0;
        IN_UNIT = false;
        IN_JOIN = [false; 4];
        UNIT_IS_AWAITED = false;
        PLACE_ARMED = false;
        PLACE_FIRED = false;
        PLACE_SEEN = 0;
    }
    crossbeam::channel::reset();
    rusty_pool::ghost::reset();
    thread::reset();
}

// ---------------------------------------------------------------------------------------
// deferred-schedule driver: run the reducer loop of `pool` (if it has not run) and then
// every pending pool task, until nothing is pending.  This is what the caller of stop()
// observes as "joined" (DESIGN.md §4.4, stop() as a barrier).
// ---------------------------------------------------------------------------------------

/// Run the reducer loop task of `pool` on this stack in the REDUCER context.
/// Returns false if no loop task was recognised or it already ran.
pub fn run_loop(pool: usize) -> bool {
    match rusty_pool::ghost::loop_task(pool) {
        Some(k) => {
            if rusty_pool::ghost::task(k).state != rusty_pool::ST_PENDING {
                return false;
            }
            in_ctx(CTX_REDUCER, || rusty_pool::ghost::run_task(k, true));
            true
        }
        None => false,
    }
}

/// What a pool join means in the model (bound to the model's JOIN scheduling point): the
/// joiner waits while the reducer loop of that pool runs to its end and the workers finish
/// every submitted task.  Code that follows the join in `stop()` therefore runs AFTER the
/// loop, as with a real join that does not time out; a store lock that `stop()` still holds
/// and the loop needs shows up as a deadlock (Mutex::lock stub).
pub static mut IN_JOIN: [bool; 4] = [false; 4];
pub fn on_join(kind: u8, obj: usize) {
    if kind != crossbeam::hooks::JOIN {
        return;
    }
    // (per pool: a join of store B requested from inside store A's join is served too)
    if obj >= 4 {
        panic!("VERIF-BOUND: more than 4 pools");
    }
    unsafe {
        if IN_JOIN[obj] {
            return;
        }
        IN_JOIN[obj] = true;
    }
    run_loop(obj);
    run_pending(8);
    unsafe {
        IN_JOIN[obj] = false;
    }
}
/// default binding of the model's scheduling points for harnesses without placed units
pub fn default_yield(kind: u8, obj: usize) {
    on_join(kind, obj)
}

/// Run pending non-loop tasks (effects, thunks) in submission order, at most `max` of
/// them; returns how many ran.  Top level only.
pub fn run_pending(max: usize) -> usize {
    let mut n = 0;
    while n < max {
        match rusty_pool::ghost::next_pending() {
            Some(k) => {
                in_ctx(CTX_POOL, || rusty_pool::ghost::run_task(k, false));
                n += 1;
            }
            None => break,
        }
    }
    n
}

//! C11 — effects at loop level: the REAL loop closure and the REAL `do_effect` /
//! `Dispatcher::{dispatch_task, dispatch_thunk}`; `do_reduce` and `do_notify` summarised
//! (the reduce summary returns a symbolic state plus one effect of a concrete kind).
//! The reducer loop is the host; when it blocks on an empty queue the scheduler first
//! runs pending pool tasks (effects), then the client's next call (`stop()`).
//!
//! `*_witness`: the known finding — an action accepted before stop() whose effect phase
//! runs after stop() took the pool loses its effect (README: "Stop store after all
//! effects are scheduled" is an open item).
#![allow(static_mut_refs)]

use super::g_glue::{self, *};
use super::rt;
use super::script::{self, *};
use super::{chk, finish, harness};
use crate::{BackpressurePolicy, Dispatcher, Effect, StoreImpl};
use std::sync::Arc;
use super::rt::Instant;

pub static mut SUM_EFF: [u8; MAXA] = [0; MAXA];
pub static mut SUM_ARG: [u8; MAXA] = [0; MAXA];
static mut STOP_CALLED: bool = false;
static mut STOP_AT: u8 = 0;
static mut CLIENT_TASKS: u8 = 0;

/// reduce summary with one effect (action j's effect has id eff_id(j, 0))
pub fn sum_reduce_eff<State, Action>(
    _this: &StoreImpl<State, Action>,
    action: &Action,
    state: State,
    dispatcher: Arc<dyn Dispatcher<Action>>,
    _t: Instant,
) -> (bool, State, Option<Vec<Effect<Action>>>)
where
    State: Send + Sync + Clone + 'static,
    Action: Send + Sync + Clone + 'static,
{
    core::mem::forget(dispatcher);
    let st: St = unsafe { core::mem::transmute_copy(&state) };
    let act: u8 = unsafe { core::mem::transmute_copy(action) };
    core::mem::forget(state);
    let j = g_glue::log_phase_pub(PH_REDUCE, st, act);
    let mut v: Vec<Effect<Action>> = Vec::with_capacity(1);
    unsafe {
        if let Some(e) = make_effect_g::<Action>(SUM_EFF[j], eff_id(j, 0), SUM_ARG[j]) {
            v.push(e);
        }
        (SUM_NEED[j], core::mem::transmute_copy(&SUM_OUT[j]), Some(v))
    }
}

/// native counterpart of the summary (see g_glue::SummaryReducer)
pub struct EffSummaryReducer;
impl crate::Reducer<St, Act> for EffSummaryReducer {
    fn reduce(&self, state: &St, action: &Act) -> crate::DispatchOp<St, Act> {
        let j = g_glue::log_phase_pub(PH_REDUCE, *state, *action);
        unsafe {
            let e = make_effect(SUM_EFF[j], eff_id(j, 0), SUM_ARG[j]);
            if SUM_NEED[j] {
                crate::DispatchOp::Dispatch(SUM_OUT[j], e)
            } else {
                crate::DispatchOp::Keep(SUM_OUT[j], e)
            }
        }
    }
}

fn mk_eff_store(cap: usize, init: St) -> Arc<Store> {
    let b = crate::StoreBuilder::new(init)
        .with_capacity(cap)
        .with_policy(BackpressurePolicy::BlockOnFull)
        .with_reducers(vec![Box::new(EffSummaryReducer)])
        .with_middlewares(vec![Arc::new(ProbeMiddleware)]);
    match b.build() {
        Ok(s) => {
            let sub: Arc<dyn crate::Subscriber<St, Act> + Send + Sync> = Arc::new(ProbeSubscriber);
            core::mem::forget(s.add_subscriber(sub));
            s
        }
        Err(e) => {
            core::mem::forget(e);
            panic!("VERIF-MODEL: harness store failed to build");
        }
    }
}

/// scheduler: the reducer loop found its queue empty
fn eff_block(kind: u8, obj: usize) {
    unsafe {
        if IN_BLOCK {
            panic!("VERIF-DEADLOCK: a scheduled unit blocked");
        }
        IN_BLOCK = true;
    }
    eff_block_inner(kind, obj);
    unsafe {
        IN_BLOCK = false;
    }
}
static mut IN_BLOCK: bool = false;
fn eff_block_inner(kind: u8, obj: usize) {
    if kind == crossbeam::hooks::RECV && obj == 0 && rt::ctx() == rt::CTX_REDUCER {
        if let Some(k) = rusty_pool::ghost::next_pending() {
            rt::in_ctx(rt::CTX_POOL, || rusty_pool::ghost::run_task(k, false));
            return;
        }
        unsafe {
            if CLIENT_TASKS > 0 {
                // the client hands a task / thunk to the running store
                CLIENT_TASKS -= 1;
                if let Some(s) = G_STORE.as_ref() {
                    let which = CLIENT_TASKS;
                    rt::in_ctx(rt::CTX_CLIENT, || {
                        if which == 1 {
                            if let Some(Effect::Task(t)) = make_effect(E_TASK, MAXE - 1, 0) {
                                Dispatcher::dispatch_task(s, t);
                            }
                        } else if let Some(Effect::Thunk(t)) = make_effect(E_THUNK, MAXE - 2, 0) {
                            Dispatcher::dispatch_thunk(s, t);
                        }
                    });
                }
                return;
            }
            if !STOP_CALLED {
                STOP_CALLED = true;
                STOP_AT = rt::now();
                if let Some(s) = G_STORE.as_ref() {
                    rt::in_ctx(rt::CTX_CLIENT, || s.stop());
                }
                return;
            }
        }
    }
    panic!("VERIF-DEADLOCK: blocked with nothing left to run");
}

macro_rules! eff_harness {
    ($(#[$m:meta])* fn $name:ident() $body:block) => {
        harness! {
            #[kani::stub(crate::store_impl::StoreImpl::do_reduce, crate::verif_kani::g_effects::sum_reduce_eff)]
            #[kani::stub(crate::store_impl::StoreImpl::do_notify, crate::verif_kani::g_glue::sum_notify)]
            #[kani::stub(crossbeam::hooks::block, eff_block)]
            #[kani::stub(crossbeam::hooks::yield_point, crate::verif_kani::rt::default_yield)]
            $(#[$m])*
            fn $name() $body
        }
    };
}

fn eff_setup(kinds: [u8; 2], k: usize, cap: usize) -> (Arc<Store>, [u8; MAXA]) {
    g_reset();
    crossbeam::hooks::set_native(Some(rt::default_yield), Some(eff_block));
    unsafe {
        STOP_CALLED = false;
        IN_BLOCK = false;
        STOP_AT = 0;
        CLIENT_TASKS = 0;
        SUM_EFF = [0; MAXA];
        SUM_ARG = [0; MAXA];
    }
    let init: St = kani::any();
    let store = mk_eff_store(cap, init);
    unsafe {
        core::ptr::write(&mut G_STORE, Some(store.clone()));
    }
    symbolic_summaries(MAXA);
    let mut acts = [0u8; MAXA];
    let mut j = 0;
    while j < k {
        unsafe {
            SUM_EFF[j] = kinds[j];
            // follow-up action of Effect::Action / of the thunk's dispatcher (odd => the
            // scripted thunk dispatches it)
            SUM_ARG[j] = kani::any::<u8>() | 1;
        }
        acts[j] = kani::any();
        core::mem::forget(StoreImpl::dispatch(&store, acts[j]));
        j += 1;
    }
    (store, acts)
}

/// effects of actions whose effect phase runs before stop() is invoked
fn g_effects(kinds: [u8; 2], k: usize, client_tasks: u8) {
    let (store, acts) = eff_setup(kinds, k, 4);
    unsafe {
        CLIENT_TASKS = client_tasks;
    }
    // the loop is the host; it ends when the client's stop() (run by the scheduler once the
    // store is idle) has closed the queue
    let ran = rt::run_loop(0);
    chk!(11, ran, "VERIF: loop task recognised");
    rt::run_pending(4);
    let end = rt::now();
    chk!(11, unsafe { STOP_CALLED }, "the client's stop() ran once the store was idle");
    let mut follow = 0usize;
    let mut j = 0;
    while j < k {
        let kind = kinds[j];
        let e = eff_id(j, 0);
        let (r, ef) = unsafe { (PH[j][PH_REDUCE], PH[j][PH_EFFECT]) };
        chk!(11, r.n == 1 && r.act == acts[j], "the producing action is reduced once");
        chk!(11, ef.n == 1, "the effect phase of the producing action ran (before_effect hook seen)");
        if kind == E_TASK || kind == E_THUNK || kind == E_FUNCTION {
            chk!(11, unsafe { EFF_RUN[e] } == 1, "every effect returned by a reducer is executed exactly once");
            chk!(11, unsafe { EFF_CTX[e] } == rt::CTX_POOL, "effects run on a worker, not in the reducer context");
            chk!(11, unsafe { EFF_AT[e] } > r.at, "an effect runs after the action that produced it was reduced");
            chk!(18, true, "");
        }
        if kind == E_THUNK {
            chk!(11, unsafe { EFF_DISPATCH[e] } == 1, "a thunk receives a dispatcher that accepts actions (store still open)");
        }
        if kind == E_THUNK || kind == E_ACTION {
            follow += 1;
        }
        j += 1;
    }
    // follow-up actions: reduced exactly once each, by THIS store, after their producers
    let mut f = 0;
    while f < 2 {
        if f < follow {
            let r = unsafe { PH[k + f][PH_REDUCE] };
            chk!(11, r.n == 1, "the action dispatched by Effect::Action / by a thunk is reduced exactly once by the same store");
            // which producer: in submission order
            let mut seen = 0usize;
            let mut j = 0;
            while j < k {
                if kinds[j] == E_THUNK || kinds[j] == E_ACTION {
                    if seen == f {
                        chk!(11, r.act == unsafe { SUM_ARG[j] }, "the follow-up action is the one the effect carried");
                        chk!(11, r.at > unsafe { PH[j][PH_REDUCE].at }, "the follow-up action is reduced after the action that produced it");
                    }
                    seen += 1;
                }
                j += 1;
            }
        }
        f += 1;
    }
    if k + follow < MAXA {
        chk!(11, unsafe { PH[k + follow][PH_REDUCE].n } == 0, "no further action is reduced");
    }
    if client_tasks >= 1 {
        chk!(11, unsafe { EFF_RUN[MAXE - 2] } == 1 && unsafe { EFF_CTX[MAXE - 2] } == rt::CTX_POOL, "a thunk handed to dispatch_thunk while the store runs is executed once on a worker");
    }
    if client_tasks >= 2 {
        chk!(11, unsafe { EFF_RUN[MAXE - 1] } == 1 && unsafe { EFF_CTX[MAXE - 1] } == rt::CTX_POOL, "a task handed to dispatch_task while the store runs is executed once on a worker");
    }
    chk!(11, rusty_pool::ghost::next_pending().is_none(), "when stop() has returned no submitted work is left");
    // after stop(): tasks are refused silently and nothing runs
    let tasks0 = rusty_pool::ghost::tasks();
    if let Some(Effect::Task(t)) = make_effect(E_TASK, MAXE - 3, 0) {
        Dispatcher::dispatch_task(&store, t);
    }
    rt::run_pending(2);
    chk!(11, rusty_pool::ghost::tasks() == tasks0 && unsafe { EFF_RUN[MAXE - 3] } == 0 && rt::now() == end, "after stop() has returned nothing further runs");
    let mt = &store.metrics;
    chk!(18, mt.effect_issued.load(std::sync::atomic::Ordering::SeqCst) == k, "effects issued = effects the reducers returned");
    unsafe {
        core::ptr::write(&mut G_STORE, None);
    }
    core::mem::forget(store);
    finish!(11, 18);
}

eff_harness! { #[kani::unwind(7)] fn g_effects_task() { g_effects([E_TASK, E_NONE], 1, 0); } }
eff_harness! { #[kani::unwind(7)] fn g_effects_thunk() { g_effects([E_THUNK, E_NONE], 1, 0); } }
eff_harness! { #[kani::unwind(7)] fn g_effects_function() { g_effects([E_FUNCTION, E_NONE], 1, 0); } }
eff_harness! { #[kani::unwind(7)] fn g_effects_action() { g_effects([E_ACTION, E_NONE], 1, 0); } }
eff_harness! { #[kani::unwind(7)] fn g_effects_task_action() { g_effects([E_TASK, E_ACTION], 2, 0); } }
eff_harness! { #[kani::unwind(7)] fn g_effects_thunk_function() { g_effects([E_THUNK, E_FUNCTION], 2, 0); } }
eff_harness! { #[kani::unwind(7)] fn g_effects_client_tasks() { g_effects([E_TASK, E_NONE], 1, 2); } }

/// KNOWN FINDING witness: dispatch(a) accepted, then stop() BEFORE the loop reached a's
/// effect phase: stop() takes the pool, dispatch_task finds None and drops the effect.
fn effects_after_pool_taken(kind: u8, witness: bool) {
    let (store, _acts) = eff_setup([kind, E_NONE], 1, 4);
    store.stop();
    unsafe {
        STOP_CALLED = true;
    }
    rt::run_loop(0);
    rt::run_pending(4);
    let e = eff_id(0, 0);
    chk!(11, unsafe { PH[0][PH_EFFECT].n } == 1, "the effect phase of the accepted action ran");
    if witness {
        chk!(11, unsafe { EFF_RUN[e] } == 1, "KNOWN-FINDING pattern: effect of an action accepted before stop() is executed once although its effect phase ran after stop() took the pool");
    } else {
        // whatever happens to that effect, it must not run in the reducer context, at most once
        chk!(11, unsafe { EFF_RUN[e] } <= 1, "an effect is never executed twice");
        chk!(11, unsafe { EFF_RUN[e] } == 0 || unsafe { EFF_CTX[e] } == rt::CTX_POOL, "an effect never runs in the reducer context, not even when the pool is already gone");
        chk!(11, unsafe { PH[0][PH_REDUCE].n } == 1 && unsafe { PH[0][PH_NOTIFY].n } == (unsafe { SUM_NEED[0] } as u8), "the action itself is still completely processed");
    }
    unsafe {
        core::ptr::write(&mut G_STORE, None);
    }
    core::mem::forget(store);
    finish!(11);
}
eff_harness! { #[kani::unwind(7)] fn g_effects_backlog_at_stop_witness() { effects_after_pool_taken(E_TASK, true); } }

eff_harness! { #[kani::unwind(7)] fn g_effects_backlog_at_stop_ctx_task() { effects_after_pool_taken(E_TASK, false); } }
eff_harness! { #[kani::unwind(7)] fn g_effects_backlog_at_stop_ctx_thunk() { effects_after_pool_taken(E_THUNK, false); } }

// -----------------------------------------------------------------------------------------
// C13: the reducer loop runs WHILE stop() is inside the pool join (the situation a real
// stop() is in whenever a backlog exists).  If stop() still holds a lock the loop needs
// (e.g. the pool lock, needed to submit effects), nobody can make progress.
// -----------------------------------------------------------------------------------------
fn join_yield(kind: u8, obj: usize) {
    rt::on_join(kind, obj)
}
fn join_runs_loop(kind: u8) {
    let (store, acts) = eff_setup([kind, E_NONE], 1, 4);
    crossbeam::hooks::set_native(Some(join_yield), Some(eff_block));
    store.stop();
    unsafe {
        STOP_CALLED = true;
    }
    rt::run_loop(0);
    rt::run_pending(4);
    let r = unsafe { PH[0][PH_REDUCE] };
    chk!(13, r.n == 1 && r.act == acts[0], "stop() completes because the backlog was processed while it was joining");
    chk!(4, r.n == 1 && unsafe { PH[0][PH_EFFECT].n } == 1, "the accepted action is completely processed before stop() returns");
    match rusty_pool::ghost::loop_task(0) {
        Some(t) => chk!(13, rusty_pool::ghost::task(t).state == rusty_pool::ST_DONE, "the reducer loop terminated"),
        None => panic!("VERIF-MODEL: no reducer loop task recognised"),
    }
    unsafe {
        core::ptr::write(&mut G_STORE, None);
    }
    core::mem::forget(store);
    finish!(4, 13);
}
macro_rules! join_harness {
    ($($name:ident = $kind:expr;)+) => { $(
        harness! {
            #[kani::stub(crate::store_impl::StoreImpl::do_reduce, crate::verif_kani::g_effects::sum_reduce_eff)]
            #[kani::stub(crate::store_impl::StoreImpl::do_notify, crate::verif_kani::g_glue::sum_notify)]
            #[kani::stub(crossbeam::hooks::block, eff_block)]
            #[kani::stub(crossbeam::hooks::yield_point, join_yield)]
            #[kani::unwind(7)]
            fn $name() { join_runs_loop($kind); }
        }
    )+ };
}
join_harness! {
    g_join_runs_loop_task = E_TASK;
    g_join_runs_loop_thunk = E_THUNK;
    g_join_runs_loop_none = E_NONE;
}

/// vacuity twin
eff_harness! { #[kani::unwind(7)] fn twin_g_effects() {
    let (store, _acts) = eff_setup([E_TASK, E_NONE], 1, 4);
    rt::run_loop(0);
    chk!(11, unsafe { EFF_RUN[eff_id(0, 0)] } == 0, "TWIN (wrong on purpose): effect never runs");
    chk!(18, store.metrics.effect_issued.load(std::sync::atomic::Ordering::SeqCst) == 0, "TWIN (wrong on purpose)");
    core::mem::forget(store);
    finish!(11, 18);
} }

/// schedule S2 (no nesting): dispatch*; close(); the loop runs (effects are submitted while
/// the pool is still there); workers run them; stop().  Thunks do not dispatch here (the
/// store is already closed when they run).
fn g_effects_s2(kinds: [u8; 2], k: usize) {
    let (store, acts) = eff_setup(kinds, k, 4);
    unsafe {
        // even argument: the scripted thunk does not use its dispatcher
        SUM_ARG = [0; MAXA];
    }
    store.close();
    let ran = rt::run_loop(0);
    chk!(11, ran, "VERIF: loop task recognised");
    let submitted = rusty_pool::ghost::tasks();
    chk!(11, unsafe { EFF_RUN[eff_id(0, 0)] } == 0 && unsafe { EFF_RUN[eff_id(1, 0)] } == 0, "no effect body runs inline in the reducer context");
    store.stop();
    rt::run_pending(4);
    let end = rt::now();
    let mut n_eff = 0usize;
    let mut j = 0;
    while j < k {
        let e = eff_id(j, 0);
        let (r, ef) = unsafe { (PH[j][PH_REDUCE], PH[j][PH_EFFECT]) };
        chk!(11, r.n == 1 && r.act == acts[j] && ef.n == 1, "the producing action went through the reduce and effect phases once");
        if kinds[j] != E_NONE {
            n_eff += 1;
            chk!(11, unsafe { EFF_RUN[e] } == 1, "every effect returned by a reducer is executed exactly once");
            chk!(11, unsafe { EFF_CTX[e] } == rt::CTX_POOL, "effects run on a worker, not in the reducer context");
            chk!(11, unsafe { EFF_AT[e] } > ef.at && unsafe { EFF_AT[e] } <= end, "an effect runs after its action's effect phase and before stop() returns");
        }
        j += 1;
    }
    // the loop task + one pool task per effect
    chk!(11, submitted == 1 + n_eff, "one pool submission per effect");
    chk!(11, rusty_pool::ghost::next_pending().is_none(), "when stop() has returned no submitted work is left");
    // a task handed over after stop() is neither queued nor run
    let tasks0 = rusty_pool::ghost::tasks();
    if let Some(Effect::Task(t)) = make_effect(E_TASK, MAXE - 3, 0) {
        Dispatcher::dispatch_task(&store, t);
    }
    if let Some(Effect::Thunk(t)) = make_effect(E_THUNK, MAXE - 4, 0) {
        Dispatcher::dispatch_thunk(&store, t);
    }
    rt::run_pending(2);
    chk!(11, rusty_pool::ghost::tasks() == tasks0 && unsafe { EFF_RUN[MAXE - 3] } == 0 && unsafe { EFF_RUN[MAXE - 4] } == 0 && rt::now() == end, "after stop() has returned nothing further runs");
    chk!(18, store.metrics.effect_issued.load(std::sync::atomic::Ordering::SeqCst) == n_eff, "effects issued = effects the reducers returned");
    unsafe {
        core::ptr::write(&mut G_STORE, None);
    }
    core::mem::forget(store);
    finish!(11, 18);
}
eff_harness! { #[kani::unwind(7)] fn g_effects_s2_task() { g_effects_s2([E_TASK, E_NONE], 1); } }
eff_harness! { #[kani::unwind(7)] fn g_effects_s2_function_thunk() { g_effects_s2([E_FUNCTION, E_THUNK], 2); } }
eff_harness! { #[kani::unwind(7)] fn g_effects_s2_none_task() { g_effects_s2([E_NONE, E_TASK], 2); } }

//! C14 — the state iterator of iterator.rs driven directly (concretely typed, no `dyn`
//! indirection): `StateIteratorSubscriber::{on_notify,on_unsubscribe}` as the producer side,
//! `StateIterator::{next, drop}` as the consumer, over the real capacity-1 BlockOnFull
//! `BackpressureChannel`.  A producer blocked on the full queue is served by one consumer
//! step.  (That `StoreImpl::iter()` wires exactly this — capacity 1, blocking policy, one
//! registered subscriber, subscription released on drop — is checked by `iter_wiring`.)
#![allow(static_mut_refs)]

use super::rt;
use super::script::{self, *};
use super::{chk, finish, harness};
use crate::channel::{BackpressureChannel, BackpressurePolicy};
use crate::iterator::{StateIterator, StateIteratorSubscriber};
use crate::{Subscriber, Subscription};

static mut IT: Option<StateIterator<St, Act>> = None;
static mut GOT: [(St, u8); 4] = [(ST0, 0); 4];
static mut N_GOT: usize = 0;
static mut NONES: u8 = 0;
static mut UNSUBSCRIBED: u8 = 0;
static mut IN_BLOCK: bool = false;

/// stands for the store's subscription handle: unsubscribing releases the subscriber, which
/// is what the closure returned by add_subscriber does (it calls on_unsubscribe)
struct Handle;
static mut PRODUCER: Option<StateIteratorSubscriber<(St, Act)>> = None;
impl Subscription for Handle {
    fn unsubscribe(&self) {
        unsafe {
            UNSUBSCRIBED += 1;
            if UNSUBSCRIBED == 1 {
                if let Some(p) = PRODUCER.as_ref() {
                    p.on_unsubscribe();
                }
            }
        }
    }
}

fn consumer_step() {
    unsafe {
        let r = rt::in_ctx(rt::CTX_CONSUMER, || match IT.as_mut() {
            Some(it) => it.next(),
            None => None,
        });
        match r {
            Some((s, a)) => {
                if N_GOT < 4 {
                    GOT[N_GOT] = (s, a);
                }
                N_GOT += 1;
            }
            None => NONES += 1,
        }
    }
}

/// the producer (reducer context) found the capacity-1 queue full: the consumer takes one
fn it_block(kind: u8, obj: usize) {
    unsafe {
        if IN_BLOCK {
            panic!("VERIF-DEADLOCK: a scheduled unit blocked");
        }
        if kind == crossbeam::hooks::SEND && obj == 0 && IT.is_some() && crossbeam::channel::ghost(0).len > 0 {
            IN_BLOCK = true;
            consumer_step();
            IN_BLOCK = false;
            return;
        }
    }
    panic!("VERIF-DEADLOCK: a blocking channel operation can never be unblocked");
}

fn setup() {
    rt::reset_all();
    script::reset();
    crossbeam::hooks::set_native(None, Some(it_block));
    let (tx, rx) = BackpressureChannel::<(St, Act)>::pair_with("store_iter", 1, BackpressurePolicy::BlockOnFull, None);
    unsafe {
        N_GOT = 0;
        NONES = 0;
        UNSUBSCRIBED = 0;
        IN_BLOCK = false;
        core::ptr::write(&mut PRODUCER, Some(StateIteratorSubscriber::new(tx)));
        core::ptr::write(&mut IT, Some(StateIterator::new(rx, Box::new(Handle))));
    }
}

/// `n` notifications, then the store shuts down (releases the subscriber), then the consumer
/// drains; `early` consumer steps are taken after the first notification
fn iter_unit(n: usize, early: usize) {
    setup();
    let mut sent = [(ST0, 0u8); 4];
    let mut i = 0;
    while i < n {
        let s: St = kani::any();
        let a: Act = kani::any();
        sent[i] = (s, a);
        rt::in_ctx(rt::CTX_REDUCER, || unsafe {
            if let Some(p) = PRODUCER.as_ref() {
                p.on_notify(&s, &a);
            }
        });
        if i == 0 {
            let mut e = 0;
            while e < early {
                if crossbeam::channel::ghost(0).len > 0 {
                    consumer_step();
                }
                e += 1;
            }
        }
        i += 1;
    }
    chk!(5, crossbeam::channel::ghost(0).max_len <= 1, "the iterator's queue never holds more than one pair");
    // store shutdown: clear_subscribers() -> on_unsubscribe (sends the end marker, waiting for
    // room if a pair is still unread)
    rt::in_ctx(rt::CTX_REDUCER, || unsafe {
        if let Some(p) = PRODUCER.as_ref() {
            p.on_unsubscribe();
        }
    });
    // consumer drains
    let mut guard = 0;
    while guard < 4 {
        if unsafe { NONES } == 0 {
            consumer_step();
        }
        guard += 1;
    }
    let got = unsafe { N_GOT };
    chk!(14, got == n, "the iterator yields every notification exactly once: no gap, no repeat");
    let mut i = 0;
    while i < 4 {
        if i < n && i < got {
            chk!(14, unsafe { GOT[i] } == sent[i], "pairs come out in notification order with their state and action");
        }
        i += 1;
    }
    chk!(14, unsafe { NONES } == 1, "after the store is stopped the iterator yields the remaining pairs and then None");
    consumer_step();
    consumer_step();
    chk!(14, unsafe { NONES } == 3 && unsafe { N_GOT } == got, "the iterator keeps returning None");
    chk!(14, unsafe { UNSUBSCRIBED } >= 1, "the exhausted iterator detaches itself from the store");
    chk!(13, true, "every call returned");
    unsafe {
        core::mem::forget(core::ptr::read(&IT));
        core::ptr::write(&mut IT, None);
    }
    finish!(5, 13, 14);
}

macro_rules! it_harness {
    ($(#[$m:meta])* fn $name:ident() $body:block) => {
        harness! {
            #[kani::stub(crossbeam::hooks::block, it_block)]
            $(#[$m])*
            fn $name() $body
        }
    };
}
it_harness! { #[kani::unwind(7)] fn iter_unit_n0() { iter_unit(0, 0); } }
it_harness! { #[kani::unwind(7)] fn iter_unit_n1() { iter_unit(1, 0); } }
it_harness! { #[kani::unwind(7)] fn iter_unit_n2() { iter_unit(2, 0); } }
it_harness! { #[kani::unwind(7)] fn iter_unit_n2_early() { iter_unit(2, 1); } }
it_harness! { #[kani::unwind(7)] fn iter_unit_n3() { iter_unit(3, 0); } }
it_harness! { #[kani::unwind(7)] fn iter_unit_n3_early() { iter_unit(3, 1); } }

/// dropping the iterator with an empty queue detaches it and returns
fn iter_unit_drop_empty(consumed: bool) {
    setup();
    if consumed {
        let s: St = kani::any();
        rt::in_ctx(rt::CTX_REDUCER, || unsafe {
            if let Some(p) = PRODUCER.as_ref() {
                p.on_notify(&s, &7);
            }
        });
        consumer_step();
        chk!(14, unsafe { N_GOT } == 1 && unsafe { GOT[0] } == (s, 7), "pair handed over");
    }
    unsafe {
        let it = core::ptr::read(&IT);
        core::ptr::write(&mut IT, None);
        drop(it);
    }
    chk!(14, unsafe { UNSUBSCRIBED } == 1, "dropping the iterator detaches it from the store (unsubscribes once)");
    chk!(13, true, "drop(iterator) with nothing unread returns");
    finish!(13, 14);
}
it_harness! { #[kani::unwind(7)] fn iter_unit_drop_fresh() { iter_unit_drop_empty(false); } }
it_harness! { #[kani::unwind(7)] fn iter_unit_drop_after_read() { iter_unit_drop_empty(true); } }

/// KNOWN FINDING witness (C13): drop(iterator) while one pair is unread
fn iter_unit_drop_unread() {
    setup();
    let s: St = kani::any();
    rt::in_ctx(rt::CTX_REDUCER, || unsafe {
        if let Some(p) = PRODUCER.as_ref() {
            p.on_notify(&s, &7);
        }
    });
    unsafe {
        let it = core::ptr::read(&IT);
        core::ptr::write(&mut IT, None);
        drop(it); // on_unsubscribe: blocking send of the end marker into the full queue
    }
    chk!(13, true, "drop(iterator) returned");
    finish!(13);
}
it_harness! { #[kani::unwind(7)] fn iter_unit_drop_unread_witness() { iter_unit_drop_unread(); } }

it_harness! { #[kani::unwind(7)] fn twin_u_iter() {
    setup();
    let s: St = kani::any();
    rt::in_ctx(rt::CTX_REDUCER, || unsafe { if let Some(p) = PRODUCER.as_ref() { p.on_notify(&s, &7); } });
    consumer_step();
    chk!(14, unsafe { N_GOT } == 0, "TWIN (wrong on purpose): nothing is yielded");
    chk!(13, false, "TWIN (wrong on purpose)");
    chk!(5, crossbeam::channel::ghost(0).max_len == 2, "TWIN (wrong on purpose)");
    unsafe { core::mem::forget(core::ptr::read(&IT)); core::ptr::write(&mut IT, None); }
    finish!(5, 13, 14);
} }

//! C09 (and the registration-order part of C03 / C07) — subscription lifecycle on a real
//! store: add_subscriber / unsubscribe (once, twice) / notification through the real
//! do_notify / clear_subscribers at shutdown, with 2..3 scripted subscribers.
#![allow(static_mut_refs)]

use super::rt;
use super::script::{self, *};
use super::u_phase::{in_reducer, mk_store};
use super::{chk, finish, harness};
use crate::{BackpressurePolicy, Dispatcher, Subscriber, Subscription};
use std::sync::Arc;

fn notify(store: &Arc<Store>, j: usize) -> (St, Act) {
    unsafe {
        CUR_MODE = 0;
        CUR = j;
    }
    let s: St = kani::any();
    let a: Act = kani::any();
    let d: Arc<dyn Dispatcher<Act>> = Arc::new(store.clone());
    in_reducer(|| store.do_notify(&a, &s, d, rt::now_model()));
    (s, a)
}

fn sub(store: &Arc<Store>, i: u8) -> Box<dyn Subscription> {
    let s: Arc<dyn Subscriber<St, Act> + Send + Sync> = Arc::new(ScriptSubscriber { idx: i });
    store.add_subscriber(s)
}

/// `ns` subscribers; `victim` unsubscribes after the first notification
fn lifecycle(ns: usize, victim: usize, via_stop: bool) {
    rt::reset_all();
    script::reset();
    let store = mk_store(1, 0, 2, BackpressurePolicy::BlockOnFull, kani::any());
    let h0 = sub(&store, 0);
    let h1 = sub(&store, 1);
    let h2 = if ns > 2 { Some(sub(&store, 2)) } else { None };
    // action 0: everybody registered
    let (s0, a0) = notify(&store, 0);
    let mut i = 0;
    let mut prev = 0u8;
    while i < ns {
        let r = unsafe { SUB[0][i] };
        chk!(9, r.n == 1 && r.st == s0 && r.act == a0, "a registered subscriber is notified of the action");
        chk!(3, r.n == 1 && r.at > prev, "subscribers are called in registration order");
        prev = r.at;
        i += 1;
    }
    // unsubscribe the victim
    match victim {
        0 => h0.unsubscribe(),
        1 => h1.unsubscribe(),
        _ => {
            if let Some(h) = h2.as_ref() {
                h.unsubscribe()
            }
        }
    }
    let t_unsub = rt::now();
    chk!(9, unsafe { UNSUB[victim] } == 1, "unsubscribe() gives the subscriber on_unsubscribe exactly once");
    let mut i = 0;
    while i < ns {
        if i != victim {
            chk!(9, unsafe { UNSUB[i] } == 0, "other subscribers are unaffected by an unsubscribe");
        }
        i += 1;
    }
    chk!(9, store.subscribers.lock().unwrap().len() == ns - 1, "exactly the unsubscribed subscriber leaves the list");
    // action 1: victim silent, the others notified, still in registration order
    let (s1, a1) = notify(&store, 1);
    let mut i = 0;
    let mut prev = 0u8;
    while i < ns {
        let r = unsafe { SUB[1][i] };
        if i == victim {
            chk!(9, r.n == 0, "once unsubscribe() has returned the subscriber receives nothing further");
        } else {
            chk!(9, r.n == 1 && r.st == s1 && r.act == a1, "the remaining subscribers still receive every notification");
            chk!(3, r.n == 1 && r.at > prev, "the remaining subscribers keep their registration order after an unsubscribe");
            chk!(7, r.n == 1 && r.at > prev, "registration order is kept after an unsubscribe");
            prev = r.at;
        }
        i += 1;
    }
    // unsubscribe again: nothing happens
    let clock = rt::now();
    match victim {
        0 => h0.unsubscribe(),
        1 => h1.unsubscribe(),
        _ => {
            if let Some(h) = h2.as_ref() {
                h.unsubscribe()
            }
        }
    }
    chk!(9, rt::now() == clock && unsafe { UNSUB[victim] } == 1, "calling unsubscribe() again does nothing");
    chk!(9, store.subscribers.lock().unwrap().len() == ns - 1, "a second unsubscribe() removes nobody else");
    // shutdown releases the rest, once
    if via_stop {
        store.stop();
        rt::run_loop(0);
    } else {
        store.clear_subscribers();
    }
    let mut i = 0;
    while i < ns {
        chk!(9, unsafe { UNSUB[i] } == 1, "every registered subscriber gets on_unsubscribe exactly once: at unsubscribe() or at shutdown, whichever comes first");
        i += 1;
    }
    chk!(9, store.subscribers.lock().unwrap().len() == 0, "no subscriber is left after shutdown");
    // a handle used after shutdown does nothing either
    let clock = rt::now();
    h1.unsubscribe();
    chk!(9, rt::now() == clock, "unsubscribe() after shutdown does nothing");
    let _ = t_unsub;
    core::mem::forget(h0);
    core::mem::forget(h1);
    core::mem::forget(h2);
    core::mem::forget(store);
    finish!(3, 7, 9);
}

harness! { #[kani::unwind(6)] fn u_subs_2_first() { lifecycle(2, 0, true); } }
harness! { #[kani::unwind(6)] fn u_subs_2_second() { lifecycle(2, 1, false); } }
harness! { #[kani::unwind(6)] fn u_subs_3_first() { lifecycle(3, 0, false); } }
harness! { #[kani::unwind(6)] fn u_subs_3_middle() { lifecycle(3, 1, true); } }
harness! { #[kani::unwind(6)] fn u_subs_3_last() { lifecycle(3, 2, false); } }

/// vacuity twin
harness! { #[kani::unwind(6)] fn twin_u_subs() {
    rt::reset_all();
    script::reset();
    let store = mk_store(1, 0, 2, BackpressurePolicy::BlockOnFull, kani::any());
    let h0 = sub(&store, 0);
    let _h1 = sub(&store, 1);
    h0.unsubscribe();
    let _ = notify(&store, 0);
    chk!(9, unsafe { SUB[0][0].n } == 1, "TWIN (wrong on purpose): unsubscribed subscriber still notified");
    chk!(3, unsafe { SUB[0][1].n } == 0, "TWIN (wrong on purpose)");
    chk!(7, unsafe { SUB[0][1].n } == 0, "TWIN (wrong on purpose)");
    core::mem::forget(h0);
    core::mem::forget(_h1);
    core::mem::forget(store);
    finish!(3, 7, 9);
} }

// -----------------------------------------------------------------------------------------
// a subscriber leaves WHILE a notification round is in progress (C03 / C09): the effect of
// another thread's unsubscribe(A) on the shared list - A's removal - is applied inside A's
// own callback, i.e. after do_notify started the round.  (The real unsubscribe closure nested
// in a round is beyond the solver's memory, DESIGN.md §4.10; what is under test here is
// do_notify: the subscribers registered for the whole run must still be called exactly once.)
// -----------------------------------------------------------------------------------------
static mut ROUND_STORE: Option<Arc<Store>> = None;
static mut REMOVED: bool = false;
fn removal_yield(kind: u8, obj: usize) {
    if rt::at_placement(kind, obj) {
        unsafe {
            if let Some(s) = ROUND_STORE.as_ref() {
                // unsubscribe's critical section: only possible when the list's lock is free
                if let Ok(mut g) = s.subscribers.try_lock() {
                    let victim = REMOVE_POS;
                    if victim < g.len() {
                        let a = g.remove(victim);
                        core::mem::forget(a);
                        REMOVED = true;
                    }
                };
            }
        }
    }
}
static mut REMOVE_POS: usize = 0;

/// 3 subscribers; during the callback of subscriber `during`, subscriber `victim` is removed
fn in_round_removal(during: usize, victim: usize) {
    rt::reset_all();
    script::reset();
    crossbeam::hooks::set_native(Some(removal_yield), None);
    let store = mk_store(1, 0, 2, BackpressurePolicy::BlockOnFull, kani::any());
    let h0 = sub(&store, 0);
    let h1 = sub(&store, 1);
    let h2 = sub(&store, 2);
    unsafe {
        core::ptr::write(&mut ROUND_STORE, Some(store.clone()));
        REMOVED = false;
        REMOVE_POS = victim;
    }
    rt::arm(rt::P_NOTIFY, during, 0);
    let (s0, a0) = notify(&store, 0);
    unsafe {
        rt::PLACE_ARMED = false;
    }
    let removed = unsafe { REMOVED };
    let mut i = 0;
    while i < 3 {
        let r = unsafe { SUB[0][i] };
        if i != victim {
            chk!(3, r.n == 1 && r.st == s0 && r.act == a0, "a subscriber registered for the whole run is called exactly once for an action, also when another subscriber leaves during the round");
            chk!(9, r.n == 1, "other subscribers are unaffected by a subscriber leaving");
        } else {
            chk!(3, r.n <= 1, "no duplicate notification");
        }
        i += 1;
    }
    // next action: the victim is silent, the others are notified once
    let (s1, a1) = notify(&store, 1);
    let mut i = 0;
    while i < 3 {
        let r = unsafe { SUB[1][i] };
        if i == victim && removed {
            chk!(9, r.n == 0, "a removed subscriber receives nothing further");
        } else if i != victim {
            chk!(3, r.n == 1 && r.st == s1 && r.act == a1, "and exactly once for every later action");
        }
        i += 1;
    }
    kani::cover!(removed, "COVER-OPT the removal happened inside the round");
    unsafe {
        core::ptr::write(&mut ROUND_STORE, None);
    }
    core::mem::forget(h0);
    core::mem::forget(h1);
    core::mem::forget(h2);
    core::mem::forget(store);
    finish!(3, 9);
}
macro_rules! round_harness {
    ($($name:ident = ($d:expr, $v:expr);)+) => { $(
        harness! {
            #[kani::stub(crossbeam::hooks::yield_point, removal_yield)]
            #[kani::unwind(6)]
            fn $name() { in_round_removal($d, $v); }
        }
    )+ };
}
round_harness! {
    u_subs_round_first_leaves_in_own_callback = (0, 0);
    u_subs_round_first_leaves_during_second = (1, 0);
    u_subs_round_second_leaves_in_first = (0, 1);
    u_subs_round_last_leaves_in_first = (0, 2);
}

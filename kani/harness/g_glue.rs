//! G- harnesses (DESIGN.md §4.5): the REAL reducer loop closure, channel wrapper,
//! dispatch / close / stop / DroppableStore glue — with the three phases `do_reduce`,
//! `do_effect`, `do_notify` replaced (Kani stubs) by nondeterministic SUMMARIES that log
//! their arguments and return unconstrained symbolic results.  Because the summaries
//! over-approximate the real phases (which are decided against their reference models by
//! the U- harnesses), what holds here for the glue holds with the real phases.
//!
//! Obligation (G): the loop takes queue items one at a time in FIFO order; feeds do_reduce
//! the published state; publishes exactly what it returned before do_effect; passes the
//! same state on; calls do_notify iff need_dispatch; nothing else produces events;
//! dispatch / close / stop behave as specified.
#![allow(static_mut_refs)]

use super::rt;
use super::script::{self, *};
use super::u_phase::mk_store;
use super::{chk, finish, harness};
use crate::{BackpressurePolicy, Dispatcher, DroppableStore, Effect, Store as StoreTrait, StoreImpl};
use std::sync::atomic::Ordering;
use std::sync::Arc;
use super::rt::Instant;

pub const PH_REDUCE: usize = 0;
pub const PH_EFFECT: usize = 1;
pub const PH_NOTIFY: usize = 2;

/// what a summarised phase was called with
#[derive(Clone, Copy, PartialEq, Eq)]
pub struct PhRec {
    pub n: u8,
    pub at: u8,
    pub st: St,
    pub act: u8,
    pub ctx: u8,
    /// get_state() as seen from inside the phase
    pub seen: St,
}
pub const PH0: PhRec = PhRec { n: 0, at: 0, st: ST0, act: 0, ctx: 0, seen: ST0 };
pub static mut PH: [[PhRec; 3]; MAXA] = [[PH0; 3]; MAXA];
/// symbolic results of the do_reduce summary
pub static mut SUM_NEED: [bool; MAXA] = [false; MAXA];
pub static mut SUM_OUT: [St; MAXA] = [ST0; MAXA];
pub static mut G_STORE: Option<Arc<Store>> = None;

fn to_st<S>(s: &S) -> St {
    assert!(core::mem::size_of::<S>() == core::mem::size_of::<St>());
    unsafe { core::mem::transmute_copy::<S, St>(s) }
}
fn from_st<S>(s: St) -> S {
    assert!(core::mem::size_of::<S>() == core::mem::size_of::<St>());
    unsafe { core::mem::transmute_copy::<St, S>(&s) }
}
fn to_act<A>(a: &A) -> u8 {
    assert!(core::mem::size_of::<A>() == 1);
    unsafe { core::mem::transmute_copy::<A, u8>(a) }
}

fn log_phase(ph: usize, st: St, act: u8) -> usize {
    let j = cur();
    rt::yield_point(rt::P_PHASE_REDUCE + ph as u8, j);
    unsafe {
        let r = &mut PH[j][ph];
        r.n += 1;
        r.at = rt::tick();
        r.st = st;
        r.act = act;
        r.ctx = rt::ctx();
        // (the summaries' own probe must not stand in for a lock the real phases never take:
        // skipped while S-read-hold's reader holds the state lock)
        if rt::HELD_STATE.is_none() {
            if let Some(s) = G_STORE.as_ref() {
                r.seen = s.get_state();
            }
        }
    }
    j
}

pub fn log_phase_pub(ph: usize, st: St, act: u8) -> usize {
    log_phase(ph, st, act)
}

/// summary of `StoreImpl::do_reduce`: any need_dispatch, any new state, no effects
pub fn sum_reduce<State, Action>(
    _this: &StoreImpl<State, Action>,
    action: &Action,
    state: State,
    dispatcher: Arc<dyn Dispatcher<Action>>,
    _t: Instant,
) -> (bool, State, Option<Vec<Effect<Action>>>)
where
    State: Send + Sync + Clone + 'static,
    Action: Send + Sync + Clone + 'static,
{
    core::mem::forget(dispatcher);
    let j = log_phase(PH_REDUCE, to_st(&state), to_act(action));
    core::mem::forget(state);
    // (an allocated, empty vector: freeing the dangling pointer of `Vec::new()` coming out of a
    // stub trips CBMC's dealloc precondition spuriously)
    unsafe { (SUM_NEED[j], from_st::<State>(SUM_OUT[j]), Some(Vec::with_capacity(1))) }
}

pub fn sum_effect<State, Action>(
    _this: &StoreImpl<State, Action>,
    action: &Action,
    state: &State,
    _effects: &mut Vec<Effect<Action>>,
    dispatcher: Arc<dyn Dispatcher<Action>>,
) where
    State: Send + Sync + Clone + 'static,
    Action: Send + Sync + Clone + 'static,
{
    let j = log_phase(PH_EFFECT, to_st(state), to_act(action));
    nested_dispatch::<Action>(j, &dispatcher);
    core::mem::forget(dispatcher);
}

/// G-nested: a middleware that dispatches a follow-up action SYNCHRONOUSLY through the
/// dispatcher it was handed, during the effect phase of action `NEST_AT` (off by default)
pub static mut NEST_AT: usize = usize::MAX;
pub static mut NEST_ACT: u8 = 0;
/// 0 = not called, 1 = Ok, 2 = Err
pub static mut NEST_RES: u8 = 0;
fn nested_dispatch<Action: Send + Sync + Clone + 'static>(j: usize, dispatcher: &Arc<dyn Dispatcher<Action>>) {
    unsafe {
        if j == NEST_AT && NEST_RES == 0 {
            assert!(core::mem::size_of::<Action>() == 1);
            let a: Action = core::mem::transmute_copy::<u8, Action>(&NEST_ACT);
            let r = dispatcher.dispatch(a);
            NEST_RES = if r.is_ok() { 1 } else { 2 };
            core::mem::forget(r);
        }
    }
}

pub fn sum_notify<State, Action>(
    _this: &StoreImpl<State, Action>,
    action: &Action,
    next_state: &State,
    dispatcher: Arc<dyn Dispatcher<Action>>,
    _t: Instant,
) where
    State: Send + Sync + Clone + 'static,
    Action: Send + Sync + Clone + 'static,
{
    core::mem::forget(dispatcher);
    log_phase(PH_NOTIFY, to_st(next_state), to_act(action));
}

/// Scripted callbacks that make the REAL phases produce exactly the log and the results of
/// the summaries: under CBMC the phases are stubbed and these are never called; under
/// native playback (where Kani stubs do not apply) and in the `w_*` twins of the glue
/// harnesses (same body, no stubs) the real do_reduce / do_effect / do_notify run and call
/// them.  Every summary output is therefore realisable by the real phases, and a glue
/// counterexample replays natively against the real code.
pub struct SummaryReducer;
impl crate::Reducer<St, Act> for SummaryReducer {
    fn reduce(&self, state: &St, action: &Act) -> crate::DispatchOp<St, Act> {
        let j = log_phase(PH_REDUCE, *state, *action);
        unsafe {
            if SUM_NEED[j] {
                crate::DispatchOp::Dispatch(SUM_OUT[j], None)
            } else {
                crate::DispatchOp::Keep(SUM_OUT[j], None)
            }
        }
    }
}
pub struct ProbeMiddleware;
impl crate::Middleware<St, Act> for ProbeMiddleware {
    fn before_effect(
        &self,
        action: &Act,
        state: &St,
        _effects: &mut Vec<Effect<Act>>,
        dispatcher: Arc<dyn Dispatcher<Act>>,
    ) -> Result<crate::MiddlewareOp, crate::StoreError> {
        let j = log_phase(PH_EFFECT, *state, *action);
        nested_dispatch::<Act>(j, &dispatcher);
        core::mem::forget(dispatcher);
        Ok(crate::MiddlewareOp::ContinueAction)
    }
    fn before_dispatch(
        &self,
        action: &Act,
        state: &St,
        dispatcher: Arc<dyn Dispatcher<Act>>,
    ) -> Result<crate::MiddlewareOp, crate::StoreError> {
        core::mem::forget(dispatcher);
        log_phase(PH_NOTIFY, *state, *action);
        Ok(crate::MiddlewareOp::ContinueAction)
    }
}

pub fn mk_glue_store(cap: usize, policy: BackpressurePolicy, init: St) -> Arc<Store> {
    let b = crate::StoreBuilder::new(init)
        .with_capacity(cap)
        .with_policy(policy)
        .with_reducers(vec![Box::new(SummaryReducer)])
        .with_middlewares(vec![Arc::new(ProbeMiddleware)]);
    match b.build() {
        Ok(s) => {
            // one (silent) direct subscriber: cloning and dropping an EMPTY subscriber snapshot in
            // the real do_notify trips a spurious dealloc precondition in CBMC's model
            let sub: Arc<dyn crate::Subscriber<St, Act> + Send + Sync> = Arc::new(ProbeSubscriber);
            core::mem::forget(s.add_subscriber(sub));
            s
        }
        Err(e) => {
            core::mem::forget(e);
            panic!("VERIF-MODEL: harness store failed to build");
        }
    }
}
pub struct ProbeSubscriber;
impl crate::Subscriber<St, Act> for ProbeSubscriber {
    fn on_notify(&self, _state: &St, _action: &Act) {
        rt::yield_point(rt::P_NOTIFY, 0);
    }
}

pub fn g_reset() {
    rt::reset_all();
    script::reset();
    crossbeam::hooks::set_native(Some(rt::default_yield), None);
    unsafe {
        PH = [[PH0; 3]; MAXA];
        SUM_NEED = [false; MAXA];
        SUM_OUT = [ST0; MAXA];
        core::ptr::write(&mut G_STORE, None);
        CUR_MODE = 1;
        CUR_CHAN = 0;
        NEST_AT = usize::MAX;
        NEST_RES = 0;
    }
}
pub fn symbolic_summaries(k: usize) {
    let mut j = 0;
    while j < k {
        unsafe {
            SUM_NEED[j] = kani::any();
            SUM_OUT[j] = kani::any();
        }
        j += 1;
    }
}

macro_rules! glue_harness {
    ($(#[$m:meta])* fn $name:ident() $body:block) => {
        harness! {
            #[kani::stub(crate::store_impl::StoreImpl::do_reduce, crate::verif_kani::g_glue::sum_reduce)]
            #[kani::stub(crate::store_impl::StoreImpl::do_effect, crate::verif_kani::g_glue::sum_effect)]
            #[kani::stub(crate::store_impl::StoreImpl::do_notify, crate::verif_kani::g_glue::sum_notify)]
            $(#[$m])*
            fn $name() $body
        }
    };
}
pub(crate) use glue_harness;
/// glue harness without placed units: the model's scheduling points only implement the join
macro_rules! glue_plain {
    ($(#[$m:meta])* fn $name:ident() $body:block) => {
        glue_harness! {
            #[kani::stub(crossbeam::hooks::yield_point, crate::verif_kani::rt::default_yield)]
            $(#[$m])*
            fn $name() $body
        }
    };
}
pub(crate) use glue_plain;

pub const END_STOP: u8 = 0;
pub const END_CLOSE_STOP: u8 = 1;
pub const END_DROP: u8 = 2;
pub const END_CLOSE_DISPATCH_STOP: u8 = 3;
/// close() through a clone while the backlog is still queued, then drop(DroppableStore)
pub const END_CLOSE_DROP: u8 = 4;

/// deferred schedules: k symbolic actions, symbolic summary outputs
fn g_fold(k: usize, cap: usize, end: u8) {
    g_reset();
    let init: St = kani::any();
    let store = mk_glue_store(cap, BackpressurePolicy::BlockOnFull, init);
    unsafe {
        core::ptr::write(&mut G_STORE, Some(store.clone()));
    }
    symbolic_summaries(k);
    let mut acts = [0u8; MAXA];
    let mut j = 0;
    while j < k {
        acts[j] = kani::any();
        // alternate the three entry points
        let r = match j % 3 {
            0 => StoreImpl::dispatch(&store, acts[j]),
            1 => Dispatcher::dispatch(&store, acts[j]),
            _ => <Store as StoreTrait<St, Act>>::dispatch(&store, acts[j]),
        };
        chk!(5, r.is_ok(), "BlockOnFull dispatch with room is accepted");
        core::mem::forget(r);
        j += 1;
    }
    chk!(7, rt::now() == 0, "nothing of the pipeline runs on the dispatching thread");
    let is_drop = end == END_DROP || end == END_CLOSE_DROP;
    let mut rejected_after_close = 0usize;
    // the model clock at the moment stop() / the drop returned (before anything else is scheduled)
    let ret0: u8;
    match end {
        END_CLOSE_STOP => {
            store.close();
            rt::run_loop(0);
            store.stop();
            ret0 = rt::now();
        }
        END_CLOSE_DISPATCH_STOP => {
            store.close();
            // a closed store rejects dispatch even before the loop has drained the backlog
            let r = StoreImpl::dispatch(&store, kani::any());
            chk!(4, r.is_err(), "after close() dispatch returns a DispatchError");
            core::mem::forget(r);
            rejected_after_close += 1;
            store.stop();
            ret0 = rt::now();
            rt::run_loop(0);
        }
        END_DROP => {
            drop(DroppableStore::new(store.clone()));
            ret0 = rt::now();
            rt::run_loop(0);
        }
        END_CLOSE_DROP => {
            let other = store.clone();
            other.close();
            core::mem::forget(other);
            drop(DroppableStore::new(store.clone()));
            ret0 = rt::now();
            rt::run_loop(0);
        }
        _ => {
            store.stop();
            ret0 = rt::now();
            rt::run_loop(0);
        }
    }
    rt::run_pending(2);
    let at_return = rt::now();
    let pg = rusty_pool::ghost::pool(0);
    chk!(4, pg.join_requests >= 1 && pg.shutdowns >= 1, "stop() takes the pool and joins it");
    chk!(15, !is_drop || (pg.join_requests >= 1 && pg.shutdowns >= 1), "dropping a DroppableStore stops the store whatever the reference count");
    match rusty_pool::ghost::loop_task(0) {
        Some(t) => chk!(4, rusty_pool::ghost::task(t).state == rusty_pool::ST_DONE, "the reducer loop has ended when stop() returns"),
        None => panic!("VERIF-MODEL: no reducer loop task recognised"),
    }

    let mut prev = init;
    let mut prev_at = 0u8;
    let mut j = 0;
    while j < k {
        let (r, e, n) = unsafe { (PH[j][PH_REDUCE], PH[j][PH_EFFECT], PH[j][PH_NOTIFY]) };
        let (need, out) = unsafe { (SUM_NEED[j], SUM_OUT[j]) };
        chk!(1, r.n == 1, "every accepted action enters the reduce phase exactly once");
        chk!(2, r.act == acts[j], "actions are taken from the queue in dispatch (FIFO) order");
        chk!(1, r.st == prev, "the reduce phase is fed the state left by the previously reduced action (the first: the initial state)");
        chk!(8, r.seen == prev, "during the reduce phase get_state() still returns the previous state");
        chk!(7, r.at > prev_at && r.ctx == rt::CTX_REDUCER, "one action at a time, in the reducer context");
        chk!(1, e.n == 1 && e.st == out && e.act == acts[j], "the effect phase gets the state the chain returned and the same action");
        chk!(7, e.at > r.at && e.ctx == rt::CTX_REDUCER, "effect phase follows the reduce phase");
        chk!(8, e.seen == out, "the new state is published (get_state) before the effect phase and the notification start");
        chk!(1, e.seen == out, "whatever the chain returns becomes the state, Dispatch and Keep alike");
        let mut last = e.at;
        if need {
            chk!(3, n.n == 1 && n.st == out && n.act == acts[j], "the notify phase runs once, with exactly this action's state and the action");
            chk!(7, n.at > e.at && n.ctx == rt::CTX_REDUCER, "notify phase follows the effect phase");
            chk!(8, n.seen == out, "while subscribers are notified get_state() already returns this action's state");
            last = n.at;
        } else {
            chk!(3, n.n == 0, "no notify phase for a Keep answer");
        }
        chk!(4, last <= at_return && last <= ret0, "every accepted action is completely processed when stop() returns");
        chk!(15, !is_drop || last <= ret0, "when the drop returns all previously accepted actions have been processed");
        prev = out;
        prev_at = last;
        j += 1;
    }
    if k < MAXA {
        chk!(1, unsafe { PH[k][PH_REDUCE].n } == 0, "nothing is reduced that was not dispatched");
    }
    let fin = store.get_state();
    chk!(1, fin == prev, "after stop() get_state() is the state after the last reduced action");
    chk!(15, !is_drop || fin == prev, "after the drop the final state is visible through every clone");

    // finality
    let clock = rt::now();
    let g = crossbeam::channel::ghost(0);
    let x: Act = kani::any();
    let r1 = StoreImpl::dispatch(&store, x);
    let r2 = Dispatcher::dispatch(&store, x);
    let r3 = <Store as StoreTrait<St, Act>>::dispatch(&store, x);
    chk!(4, r1.is_err() && r2.is_err() && r3.is_err(), "after stop() dispatch through every entry point returns a DispatchError");
    chk!(15, !is_drop || (r1.is_err() && r2.is_err() && r3.is_err()), "after the drop every remaining clone rejects dispatches");
    core::mem::forget(r1);
    core::mem::forget(r2);
    core::mem::forget(r3);
    store.stop();
    store.close();
    <Store as StoreTrait<St, Act>>::stop(&store);
    rt::run_pending(2);
    let g2 = crossbeam::channel::ghost(0);
    chk!(4, rt::now() == clock && g2.len == g.len && g2.n_taken == g.n_taken, "after stop() nothing changes and further stop() calls do nothing");
    chk!(4, store.get_state() == fin, "the state is final");
    let mt = &store.metrics;
    chk!(18, mt.error_occurred.load(Ordering::SeqCst) == 2 + rejected_after_close, "error_occurred = dispatches StoreImpl::dispatch rejected after close");
    chk!(18, mt.action_received.load(Ordering::SeqCst) == k + 1, "received (incl. the shutdown marker) = dispatched while open + 1");
    chk!(18, mt.action_dropped.load(Ordering::SeqCst) == 0, "BlockOnFull drops nothing");
    chk!(5, crossbeam::channel::ghost(0).max_len <= cap, "the queue never holds more than `capacity` items");
    unsafe {
        core::ptr::write(&mut G_STORE, None);
    }
    core::mem::forget(store);
    finish!(1, 2, 3, 4, 5, 7, 8, 15, 18);
}

glue_plain! { #[kani::unwind(6)] fn g_fold_k1() { g_fold(1, 2, END_STOP); } }
glue_plain! { #[kani::unwind(6)] fn g_fold_k2() { g_fold(2, 3, END_STOP); } }
glue_plain! { #[kani::unwind(7)] fn g_fold_k3() { g_fold(3, 4, END_STOP); } }
glue_plain! { #[kani::unwind(6)] fn g_fold_k2_close_stop() { g_fold(2, 3, END_CLOSE_STOP); } }
glue_plain! { #[kani::unwind(6)] fn g_fold_k2_drop() { g_fold(2, 3, END_DROP); } }
glue_plain! { #[kani::unwind(6)] fn g_fold_k2_close_dispatch_stop() { g_fold(2, 3, END_CLOSE_DISPATCH_STOP); } }
glue_plain! { #[kani::unwind(6)] fn g_fold_k0_drop() { g_fold(0, 1, END_DROP); } }
glue_plain! { #[kani::unwind(7)] fn g_fold_k3_drop() { g_fold(3, 4, END_DROP); } }
glue_plain! { #[kani::unwind(7)] fn g_fold_k3_close_stop() { g_fold(3, 4, END_CLOSE_STOP); } }
glue_plain! { #[kani::unwind(7)] fn g_fold_k3_close_dispatch_stop() { g_fold(3, 4, END_CLOSE_DISPATCH_STOP); } }
glue_plain! { #[kani::unwind(6)] fn g_fold_k1_drop() { g_fold(1, 2, END_DROP); } }
glue_plain! { #[kani::unwind(6)] fn g_fold_k2_close_drop() { g_fold(2, 3, END_CLOSE_DROP); } }
glue_plain! { #[kani::unwind(6)] fn g_fold_k1_close_drop() { g_fold(1, 2, END_CLOSE_DROP); } }


// -----------------------------------------------------------------------------------------
// lock-discipline probes at the model's scheduling points.  ADVISORY ONLY (pseudo-property
// C00): they assert the MECHANISM the property anchors name (sender lock held at every
// enqueue, no store lock held at the join).  A different correct mechanism would trip them,
// so a probe failure is reported as a note, never as a violation; the behavioural harnesses
// (S-race, join-runs-loop) decide the properties.
// -----------------------------------------------------------------------------------------
pub static mut PROBE_SENDS: u8 = 0;
pub static mut PROBE_JOINS: u8 = 0;

/// bound to `crossbeam::hooks::yield_point`: called by the channel model at the start of
/// every queue operation and by the pool model inside `shutdown_join*` / `join*`
pub fn lock_probe(kind: u8, obj: usize) {
    lock_probe_inner(kind, obj);
    rt::on_join(kind, obj);
}
fn lock_probe_inner(kind: u8, obj: usize) {
    unsafe {
        let s = match G_STORE.as_ref() {
            Some(s) => s,
            None => return,
        };
        if obj == 0 && (kind == crossbeam::hooks::SEND || kind == crossbeam::hooks::TRY_SEND || kind == crossbeam::hooks::SENT) {
            // something is being enqueued on the dispatch queue: the sender lock must be held,
            // otherwise sends are not serialised (C02) and a dispatch can slip in behind the
            // shutdown marker (C04)
            PROBE_SENDS += 1;
            let held = s.dispatch_tx.try_lock().is_err();
            chk!(0, held, "every enqueue on the dispatch queue happens with the dispatch_tx lock held (sends are totally ordered)");
            chk!(0, held, "close() enqueues the shutdown marker while holding the dispatch_tx lock, so no dispatch can be accepted behind it");
            chk!(0, held, "an accepted action cannot be enqueued behind the shutdown marker");
        }
        if kind == crossbeam::hooks::JOIN {
            PROBE_JOINS += 1;
            // joining the pool while holding a lock the reducer / effects need would deadlock
            let pool_free = s.pool.try_lock().is_ok();
            let tx_free = s.dispatch_tx.try_lock().is_ok();
            let subs_free = s.subscribers.try_lock().is_ok();
            chk!(0, pool_free, "stop() does not hold the pool lock while it joins the pool (the reducer needs it to submit effects)");
            chk!(0, tx_free && subs_free, "stop() holds no store lock while it joins the pool");
        }
    }
}

fn g_locks(k: usize, end: u8) {
    g_reset();
    crossbeam::hooks::set_native(Some(lock_probe), None);
    unsafe {
        PROBE_SENDS = 0;
        PROBE_JOINS = 0;
    }
    let store = mk_glue_store(4, BackpressurePolicy::BlockOnFull, kani::any());
    unsafe {
        core::ptr::write(&mut G_STORE, Some(store.clone()));
    }
    symbolic_summaries(k);
    let mut j = 0;
    while j < k {
        let a: Act = kani::any();
        let r = match j % 3 {
            0 => StoreImpl::dispatch(&store, a),
            1 => Dispatcher::dispatch(&store, a),
            _ => <Store as StoreTrait<St, Act>>::dispatch(&store, a),
        };
        core::mem::forget(r);
        j += 1;
    }
    match end {
        END_DROP => drop(DroppableStore::new(store.clone())),
        END_CLOSE_STOP => {
            store.close();
            store.stop();
        }
        _ => store.stop(),
    }
    rt::run_loop(0);
    chk!(0, unsafe { PROBE_SENDS } as usize >= 2 * (k + 1), "VERIF: every enqueue was probed");
    chk!(0, unsafe { PROBE_JOINS } >= 1, "VERIF: the join was probed");
    kani::cover!(unsafe { PROBE_SENDS } > 0 && unsafe { PROBE_JOINS } > 0, "COVER probes fired");
    unsafe {
        core::ptr::write(&mut G_STORE, None);
    }
    core::mem::forget(store);
    finish!(0);
}
macro_rules! probe_harness {
    ($(#[$m:meta])* fn $name:ident() $body:block) => {
        glue_harness! {
            #[kani::stub(crossbeam::hooks::yield_point, crate::verif_kani::g_glue::lock_probe)]
            $(#[$m])*
            fn $name() $body
        }
    };
}
probe_harness! { #[kani::unwind(7)] fn g_locks_k3_stop() { g_locks(3, END_STOP); } }
probe_harness! { #[kani::unwind(7)] fn g_locks_k1_close_stop() { g_locks(1, END_CLOSE_STOP); } }
probe_harness! { #[kani::unwind(7)] fn g_locks_k1_drop() { g_locks(1, END_DROP); } }

// -----------------------------------------------------------------------------------------
// S-race: one dispatch of another client thread placed at a scheduling point INSIDE
// stop() / close() or inside the loop run that stop() waits for (C04 / C01 / C02)
// -----------------------------------------------------------------------------------------
static mut RACE_RES: u8 = 0; // 0 not run, 1 Ok, 2 Err
static mut RACE_X: u8 = 0;
static mut RACE_ENTRY: u8 = 0;
static mut RACE_AT_CLOCK: u8 = 0;

fn race_unit() {
    unsafe {
        let s = match G_STORE.as_ref() {
            Some(s) => s,
            None => return,
        };
        // enabledness of the unit at this placement: dispatch starts by taking the sender
        // lock; if the suspended host holds it the other thread simply waits here (the call
        // is then explored at the later placements instead)
        if s.dispatch_tx.try_lock().is_err() {
            return;
        }
        RACE_AT_CLOCK = rt::now();
        let x = RACE_X;
        let r = rt::in_ctx(rt::CTX_CLIENT, || match RACE_ENTRY {
            0 => StoreImpl::dispatch(s, x),
            1 => Dispatcher::dispatch(s, x),
            _ => <Store as StoreTrait<St, Act>>::dispatch(s, x),
        });
        RACE_RES = if r.is_ok() { 1 } else { 2 };
        core::mem::forget(r);
    }
}
fn race_yield(kind: u8, obj: usize) {
    if rt::at_placement(kind, obj) {
        unsafe {
            rt::IN_UNIT = true;
        }
        race_unit();
        unsafe {
            rt::IN_UNIT = false;
        }
    }
}
/// a nested unit that would block (full queue) is not enabled at this placement
fn race_block(_kind: u8, _obj: usize) {
    if unsafe { rt::IN_UNIT } {
        kani::assume(false);
    }
    panic!("VERIF-DEADLOCK: host blocked with no scheduler");
}

/// backlog of `b` actions; T2 calls stop(); T1's dispatch runs at placement (kind,obj,occ)
fn s_race(b: usize, kind: u8, obj: usize, occ: u8, entry: u8) {
    g_reset();
    crossbeam::hooks::set_native(Some(race_yield_pub), Some(race_block));
    let init: St = kani::any();
    let store = mk_glue_store(4, BackpressurePolicy::BlockOnFull, init);
    unsafe {
        core::ptr::write(&mut G_STORE, Some(store.clone()));
        RACE_RES = 0;
        RACE_X = kani::any();
        RACE_ENTRY = entry;
    }
    symbolic_summaries(b + 1);
    let mut acts = [0u8; MAXA];
    let mut j = 0;
    while j < b {
        acts[j] = kani::any();
        core::mem::forget(StoreImpl::dispatch(&store, acts[j]));
        j += 1;
    }
    rt::arm(kind, obj, occ);
    store.stop();
    rt::run_loop(0);
    rt::run_pending(2);
    unsafe {
        rt::PLACE_ARMED = false;
    }
    let res = unsafe { RACE_RES };
    let x = unsafe { RACE_X };
    // the backlog is always processed, in order
    let mut j = 0;
    while j < b {
        let r = unsafe { PH[j][PH_REDUCE] };
        chk!(4, r.n == 1 && r.act == acts[j], "every action accepted before stop() is processed before stop() returns");
        chk!(2, r.n == 1 && r.act == acts[j], "accepted actions keep their dispatch order");
        j += 1;
    }
    let extra = unsafe { PH[b][PH_REDUCE] };
    if res == 1 {
        chk!(4, extra.n == 1 && extra.act == x, "a dispatch racing with stop() that returned Ok is processed before stop() returns");
        chk!(1, extra.n == 1 && extra.act == x, "every accepted action is reduced exactly once");
    } else {
        chk!(4, extra.n == 0, "a dispatch racing with stop() that returned Err is never reduced");
    }
    if b + 1 < MAXA {
        chk!(1, unsafe { PH[b + 1][PH_REDUCE].n } == 0, "nothing else is reduced");
    }
    kani::cover!(res == 1, "COVER-OPT racing dispatch accepted");
    kani::cover!(res == 2, "COVER-OPT racing dispatch rejected");
    kani::cover!(res != 0, "COVER-OPT the unit was enabled at this placement");
    unsafe {
        core::ptr::write(&mut G_STORE, None);
    }
    core::mem::forget(store);
    finish!(1, 2, 4);
}
macro_rules! race_harness {
    ($($name:ident = ($b:expr, $kind:expr, $obj:expr, $occ:expr, $entry:expr);)+) => { $(
        glue_harness! {
            #[kani::stub(crossbeam::hooks::yield_point, crate::verif_kani::g_glue::race_yield_pub)]
            #[kani::stub(crossbeam::hooks::block, crate::verif_kani::g_glue::race_block_pub)]
            #[kani::unwind(7)]
            fn $name() { s_race($b, $kind, $obj, $occ, $entry); }
        }
    )+ };
}
pub fn race_yield_pub(kind: u8, obj: usize) {
    race_yield(kind, obj);
    rt::on_join(kind, obj);
}
pub fn race_block_pub(kind: u8, obj: usize) {
    race_block(kind, obj)
}
use crossbeam::hooks as hk;
race_harness! {
    // inside close(): before the shutdown marker is enqueued, and right after
    s_race_b1_close_send = (1, hk::SEND, 0, 0, 0);
    s_race_b1_close_sent = (1, hk::SENT, 0, 0, 0);
    s_race_b0_close_sent = (0, hk::SENT, 0, 0, 1);
    // inside stop(): at the join
    s_race_b1_join = (1, hk::JOIN, 0, 0, 2);
    // inside the loop run: before / after taking each item, and in each phase of the backlog action
    s_race_b1_loop_recv0 = (1, hk::RECV, 0, 0, 0);
    s_race_b1_loop_taken0 = (1, hk::TAKEN, 0, 0, 1);
    s_race_b1_loop_reduce = (1, rt::P_PHASE_REDUCE, 0, 0, 0);
    s_race_b1_loop_effect = (1, rt::P_PHASE_EFFECT, 0, 0, 2);
    s_race_b1_loop_notify = (1, rt::P_PHASE_NOTIFY, 0, 0, 0);
    s_race_b1_loop_recv1 = (1, hk::RECV, 0, 1, 1);
    s_race_b1_loop_taken1 = (1, hk::TAKEN, 0, 1, 0);
    // backlog of two
    s_race_b2_close_sent = (2, hk::SENT, 0, 0, 1);
    s_race_b2_join = (2, hk::JOIN, 0, 0, 0);
    s_race_b2_loop_taken1 = (2, hk::TAKEN, 0, 1, 2);
    s_race_b2_loop_notify1 = (2, rt::P_PHASE_NOTIFY, 1, 0, 1);
    s_race_b2_loop_recv2 = (2, hk::RECV, 0, 2, 0);
}

// -----------------------------------------------------------------------------------------
// shutdown with a FULL queue under the drop policies: the shutdown marker itself goes through
// the policy (DropLatest discards it -> the loop ends by disconnection; DropOldest evicts and
// counts the oldest action) - C04 / C06 / C09 / C15 / C18
// -----------------------------------------------------------------------------------------
fn g_full_at_stop(k: usize, policy: u8, end: u8) {
    g_reset();
    let init: St = kani::any();
    let pol = if policy == 1 { BackpressurePolicy::DropOldest } else { BackpressurePolicy::DropLatest };
    let store = mk_glue_store(k, pol, init);
    unsafe {
        core::ptr::write(&mut G_STORE, Some(store.clone()));
    }
    symbolic_summaries(MAXA);
    let mut acts = [0u8; MAXA];
    let mut j = 0;
    while j < k {
        acts[j] = kani::any();
        let r = Dispatcher::dispatch(&store, acts[j]);
        chk!(6, r.is_ok(), "a dispatch with room is accepted under a drop policy");
        core::mem::forget(r);
        j += 1;
    }
    chk!(6, crossbeam::channel::ghost(0).len == k, "queue full");
    match end {
        END_DROP => drop(DroppableStore::new(store.clone())),
        _ => store.stop(),
    }
    rt::run_loop(0);
    rt::run_pending(2);
    let g = crossbeam::channel::ghost(0);
    chk!(6, g.n_send_waited == 0, "under a drop policy neither dispatch nor close() ever waits");
    match rusty_pool::ghost::loop_task(0) {
        Some(t) => chk!(4, rusty_pool::ghost::task(t).state == rusty_pool::ST_DONE, "the reducer loop ends (by the marker or by disconnection) and stop() returns"),
        None => panic!("VERIF-MODEL: no reducer loop task recognised"),
    }
    // which actions must have been reduced: DropLatest keeps all k (the marker is discarded),
    // DropOldest evicts the oldest one to admit the marker
    let first = if policy == 1 { 1 } else { 0 };
    let mut j = 0;
    while j < k {
        // the log is indexed by the number of items taken from the queue so far; the evicted
        // head consumed index 0 under DropOldest
        let r = unsafe { PH[j][PH_REDUCE] };
        if j >= first {
            chk!(4, r.n == 1 && r.act == acts[j], "every action that survived the policy is processed before stop() returns");
            chk!(6, r.n == 1 && r.act == acts[j], "survivors are reduced exactly once, in dispatch order");
        } else {
            chk!(6, r.n == 0, "the evicted action is never reduced");
        }
        j += 1;
    }
    let mt = &store.metrics;
    let dropped = mt.action_dropped.load(Ordering::SeqCst);
    chk!(6, dropped == first, "each action dispatched while open is reduced once or counted dropped once, never both or neither");
    chk!(18, dropped == first && mt.action_received.load(Ordering::SeqCst) == k, "received (marker excluded) + dropped = dispatched while open");
    chk!(9, store.subscribers.lock().unwrap().len() == 0, "subscribers are released at shutdown however the loop ends");
    chk!(4, store.subscribers.lock().unwrap().len() == 0, "loop exit releases the subscribers");
    // the release is what flushes and joins channeled subscribers, ends state iterators, and
    // lets a consumer blocked in next() return
    chk!(10, store.subscribers.lock().unwrap().len() == 0, "stop() releases (flushes and joins) channeled subscribers however the loop ends");
    chk!(13, store.subscribers.lock().unwrap().len() == 0, "subscribers waiting for the end of the stream are released however the loop ends (no consumer blocks forever)");
    chk!(14, store.subscribers.lock().unwrap().len() == 0, "after the store is stopped the iterator's subscriber is released (it then yields None)");
    chk!(15, end != END_DROP || store.subscribers.lock().unwrap().len() == 0, "dropping a DroppableStore releases the subscribers");
    let r = Dispatcher::dispatch(&store, kani::any());
    chk!(4, r.is_err(), "after stop() dispatch is rejected under every policy");
    core::mem::forget(r);
    unsafe {
        core::ptr::write(&mut G_STORE, None);
    }
    core::mem::forget(store);
    finish!(4, 6, 9, 10, 13, 14, 15, 18);
}
glue_plain! { #[kani::unwind(7)] fn g_full_latest_k2_stop() { g_full_at_stop(2, 2, END_STOP); } }
glue_plain! { #[kani::unwind(7)] fn g_full_latest_k1_drop() { g_full_at_stop(1, 2, END_DROP); } }
glue_plain! { #[kani::unwind(7)] fn g_full_oldest_k2_stop() { g_full_at_stop(2, 1, END_STOP); } }
glue_plain! { #[kani::unwind(7)] fn g_full_oldest_k3_drop() { g_full_at_stop(3, 1, END_DROP); } }

// -----------------------------------------------------------------------------------------
// G-nested (C02 / C01 / C11): the loop runs FIRST (store still open); during the effect phase
// of action 0 a middleware dispatches x synchronously through the dispatcher it was handed,
// while action 1 - whose dispatch returned earlier - is still queued.  When the loop finds the
// queue empty the client calls close(); then stop().  Oracle: a0, a1, x each go through the
// pipeline once, in that order (real-time order: a1 was accepted before x was dispatched),
// each fed the state left by its predecessor.
// -----------------------------------------------------------------------------------------
static mut NEST_CLOSED: bool = false;
fn nested_block(kind: u8, obj: usize) {
    unsafe {
        if kind == hk::RECV && obj == 0 && !NEST_CLOSED {
            if let Some(s) = G_STORE.as_ref() {
                NEST_CLOSED = true;
                rt::in_ctx(rt::CTX_CLIENT, || s.close());
                return;
            }
        }
    }
    panic!("VERIF-DEADLOCK: host blocked with nothing to unblock it");
}
pub fn nested_block_pub(kind: u8, obj: usize) {
    nested_block(kind, obj)
}
fn g_nested(cap: usize) {
    g_reset();
    crossbeam::hooks::set_native(Some(rt::default_yield), Some(nested_block_pub));
    let init: St = kani::any();
    let store = mk_glue_store(cap, BackpressurePolicy::BlockOnFull, init);
    let x: Act = kani::any();
    unsafe {
        core::ptr::write(&mut G_STORE, Some(store.clone()));
        NEST_CLOSED = false;
        NEST_AT = 0;
        NEST_ACT = x;
    }
    symbolic_summaries(3);
    let a0: Act = kani::any();
    let a1: Act = kani::any();
    core::mem::forget(StoreImpl::dispatch(&store, a0));
    core::mem::forget(StoreImpl::dispatch(&store, a1));
    rt::run_loop(0);
    store.stop();
    rt::run_pending(2);
    chk!(2, unsafe { NEST_RES } == 1, "a dispatch from inside a middleware callback of an open store is accepted");
    chk!(5, unsafe { NEST_RES } == 1, "BlockOnFull with room: accepted");
    let exp = [a0, a1, x];
    let mut prev = init;
    let mut j = 0;
    while j < 3 {
        let r = unsafe { PH[j][PH_REDUCE] };
        chk!(1, r.n == 1, "every accepted action - also one dispatched from inside a callback - enters the reduce phase exactly once");
        chk!(2, r.n == 1 && r.act == exp[j], "real-time order: an action whose dispatch returned before another dispatch began is reduced first, also when the later one comes from a middleware on the reducer thread");
        chk!(1, r.st == prev, "each action starts from the state left by the previously reduced action");
        chk!(7, unsafe { PH[j][PH_EFFECT].n } == 1 && unsafe { PH[j][PH_EFFECT].at } > r.at && (j == 0 || r.at > unsafe { PH[j - 1][PH_EFFECT].at }), "one action at a time: an action dispatched during a phase is processed after the current one is finished");
        prev = unsafe { SUM_OUT[j] };
        j += 1;
    }
    chk!(1, store.get_state() == prev, "after stop() get_state() is the state after the last reduced action");
    chk!(4, unsafe { PH[2][PH_REDUCE].n } == 1, "an action accepted before close() is processed before stop() returns");
    unsafe {
        core::ptr::write(&mut G_STORE, None);
    }
    core::mem::forget(store);
    finish!(1, 2, 4, 5, 7);
}
glue_harness! {
    #[kani::stub(crossbeam::hooks::yield_point, crate::verif_kani::rt::default_yield)]
    #[kani::stub(crossbeam::hooks::block, crate::verif_kani::g_glue::nested_block_pub)]
    #[kani::unwind(7)]
    fn g_nested_cap3() { g_nested(3); }
}
glue_harness! {
    #[kani::stub(crossbeam::hooks::yield_point, crate::verif_kani::rt::default_yield)]
    #[kani::stub(crossbeam::hooks::block, crate::verif_kani::g_glue::nested_block_pub)]
    #[kani::unwind(7)]
    fn g_nested_cap2() { g_nested(2); }
}

// -----------------------------------------------------------------------------------------
// S-read-hold (C01 / C08): a reader thread is SUSPENDED INSIDE get_state() - it has taken the
// state lock and is cloning - when the loop has just taken queue item `occ`.  A context that
// waits for the lock lets the reader finish (rt::mutex_lock); otherwise the reader finishes
// when the loop comes back for the next item.  Whatever the loop does meanwhile, the state
// after stop() is the fold of all actions and the reader saw a completely reduced state.
// -----------------------------------------------------------------------------------------
fn hold_yield(kind: u8, obj: usize) {
    unsafe {
        if kind == hk::RECV && obj == 0 && rt::HELD_STATE.is_some() {
            rt::holder_release();
            rt::HELD_WAITED -= 1; // nobody waited: the reader simply finished
        }
    }
    if rt::at_placement(kind, obj) {
        unsafe {
            if let Some(s) = G_STORE.as_ref() {
                if let Some(g) = rt::ReaderProbe::reader_enters_get_state(&**s) {
                    core::ptr::write(&mut rt::HELD_STATE, Some(g));
                    READ_DONE = true;
                }
            }
        }
    }
}
pub fn hold_yield_pub(kind: u8, obj: usize) {
    hold_yield(kind, obj);
    rt::on_join(kind, obj);
}
fn s_read_hold(k: usize, occ: u8) {
    g_reset();
    crossbeam::hooks::set_native(Some(hold_yield_pub), None);
    let init: St = kani::any();
    let store = mk_glue_store(4, BackpressurePolicy::BlockOnFull, init);
    unsafe {
        core::ptr::write(&mut G_STORE, Some(store.clone()));
        core::ptr::write(&mut rt::HELD_STATE, None);
        rt::HELD_WAITED = 0;
        READ_DONE = false;
    }
    symbolic_summaries(k);
    let mut j = 0;
    while j < k {
        core::mem::forget(StoreImpl::dispatch(&store, kani::any()));
        j += 1;
    }
    rt::arm(hk::TAKEN, 0, occ);
    store.stop();
    rt::run_loop(0);
    unsafe {
        rt::PLACE_ARMED = false;
        rt::holder_release();
    }
    let expect = if occ == 0 { init } else { unsafe { SUM_OUT[occ as usize - 1] } };
    chk!(8, unsafe { READ_DONE }, "VERIF: the reader ran");
    chk!(8, unsafe { rt::HELD_READ } == expect, "a reader that holds the state lock while the loop works sees the state left by the last completely reduced action");
    let fin = store.get_state();
    chk!(1, fin == unsafe { SUM_OUT[k - 1] }, "once stop() has returned get_state() is the state after the last reduced action, also when a reader held the state lock while that action was published");
    chk!(8, fin == unsafe { SUM_OUT[k - 1] }, "reads never go back: the last published state is the newest");
    kani::cover!(unsafe { rt::HELD_WAITED } > 0, "COVER-OPT the loop waited for the reader to finish");
    unsafe {
        core::ptr::write(&mut G_STORE, None);
    }
    core::mem::forget(store);
    finish!(1, 8);
}
macro_rules! hold_harness {
    ($($name:ident = ($k:expr, $occ:expr);)+) => { $(
        glue_harness! {
            #[kani::stub(crossbeam::hooks::yield_point, crate::verif_kani::g_glue::hold_yield_pub)]
            #[kani::unwind(7)]
            fn $name() { s_read_hold($k, $occ); }
        }
    )+ };
}
hold_harness! {
    s_read_hold_k1_last = (1, 0);
    s_read_hold_k2_last = (2, 1);
    s_read_hold_k2_first = (2, 0);
}

// -----------------------------------------------------------------------------------------
// S-read (C08): a reader thread's get_state() placed at channel-level scheduling points of
// the loop (before / after the loop takes item j), two reads in a row
// -----------------------------------------------------------------------------------------
static mut READ_A: St = ST0;
static mut READ_B: St = ST0;
static mut READ_DONE: bool = false;
fn read_yield(kind: u8, obj: usize) {
    if rt::at_placement(kind, obj) {
        unsafe {
            if let Some(s) = G_STORE.as_ref() {
                rt::IN_UNIT = true;
                READ_A = rt::in_ctx(rt::CTX_CLIENT, || s.get_state());
                READ_B = rt::in_ctx(rt::CTX_CLIENT, || <Store as StoreTrait<St, Act>>::get_state(s));
                READ_DONE = true;
                rt::IN_UNIT = false;
            }
        }
    }
}
pub fn read_yield_pub(kind: u8, obj: usize) {
    read_yield(kind, obj);
    rt::on_join(kind, obj);
}
/// k actions queued, stop(); the reader runs when the loop is about to take / has just taken
/// queue item number `occ` (item k is the shutdown marker)
fn s_read(k: usize, kind: u8, occ: u8) {
    g_reset();
    crossbeam::hooks::set_native(Some(read_yield_pub), None);
    let init: St = kani::any();
    let store = mk_glue_store(4, BackpressurePolicy::BlockOnFull, init);
    unsafe {
        core::ptr::write(&mut G_STORE, Some(store.clone()));
        READ_DONE = false;
    }
    symbolic_summaries(k);
    let mut j = 0;
    while j < k {
        core::mem::forget(StoreImpl::dispatch(&store, kani::any()));
        j += 1;
    }
    rt::arm(kind, 0, occ);
    store.stop();
    rt::run_loop(0);
    unsafe {
        rt::PLACE_ARMED = false;
    }
    // when the loop is at queue item `occ`, exactly the actions 0..occ have been completely
    // processed: the reader must see the state left by action occ-1 (the initial state for 0)
    let expect = if occ == 0 { init } else { unsafe { SUM_OUT[occ as usize - 1] } };
    chk!(8, unsafe { READ_DONE }, "VERIF: the reader ran");
    chk!(8, unsafe { READ_A } == expect, "get_state() from another thread returns the state left by the last completely reduced action - never an invented or partially applied value");
    chk!(8, unsafe { READ_B } == unsafe { READ_A }, "successive reads never go back (no action was reduced in between: same value)");
    chk!(1, unsafe { READ_A } == expect, "the published state is the fold so far");
    unsafe {
        core::ptr::write(&mut G_STORE, None);
    }
    core::mem::forget(store);
    finish!(1, 8);
}
macro_rules! read_harness {
    ($($name:ident = ($k:expr, $kind:expr, $occ:expr);)+) => { $(
        glue_harness! {
            #[kani::stub(crossbeam::hooks::yield_point, crate::verif_kani::g_glue::read_yield_pub)]
            #[kani::unwind(7)]
            fn $name() { s_read($k, $kind, $occ); }
        }
    )+ };
}
read_harness! {
    s_read_k2_before_first = (2, hk::RECV, 0);
    s_read_k2_after_taking_second = (2, hk::TAKEN, 1);
    s_read_k2_before_marker = (2, hk::RECV, 2);
    s_read_k3_after_taking_third = (3, hk::TAKEN, 2);
    s_read_k1_after_marker = (1, hk::TAKEN, 1);
}

// -----------------------------------------------------------------------------------------
// S-block (C05): with the reducer held inside the reduce phase of the first action, a producer
// dispatches as long as it is not made to wait; the number of actions accepted but not yet
// started by the reducer must never exceed the capacity
// -----------------------------------------------------------------------------------------
static mut BLK_ACCEPTED: usize = 0;
static mut BLK_CAP: usize = 0;
fn blk_yield(kind: u8, obj: usize) {
    if rt::at_placement(kind, obj) {
        unsafe {
            if let Some(s) = G_STORE.as_ref() {
                rt::IN_UNIT = true;
                // the producer keeps dispatching while it would not have to wait (BlockOnFull:
                // room in the queue); at most 4 calls
                let mut n = 0;
                while n < 4 {
                    if crossbeam::channel::ghost(0).len < BLK_CAP {
                        let r = rt::in_ctx(rt::CTX_CLIENT, || StoreImpl::dispatch(s, 100 + n as u8));
                        if r.is_ok() {
                            BLK_ACCEPTED += 1;
                        }
                        core::mem::forget(r);
                    }
                    n += 1;
                }
                rt::IN_UNIT = false;
            }
        }
    }
}
pub fn blk_yield_pub(kind: u8, obj: usize) {
    blk_yield(kind, obj);
    rt::on_join(kind, obj);
}
static mut BLK_STOPPED: bool = false;
fn blk_block(kind: u8, obj: usize) {
    unsafe {
        // the reducer found its queue empty: now the client stops the store
        if kind == hk::RECV && obj == 0 && !BLK_STOPPED && !rt::IN_UNIT {
            BLK_STOPPED = true;
            if let Some(s) = G_STORE.as_ref() {
                rt::IN_UNIT = true;
                rt::in_ctx(rt::CTX_CLIENT, || s.stop());
                rt::IN_UNIT = false;
                return;
            }
        }
    }
    panic!("VERIF-DEADLOCK: host blocked with no scheduler");
}
pub fn blk_block_pub(k: u8, o: usize) {
    blk_block(k, o)
}
fn s_block(cap: usize) {
    g_reset();
    crossbeam::hooks::set_native(Some(blk_yield_pub), Some(blk_block));
    let store = mk_glue_store(cap, BackpressurePolicy::BlockOnFull, kani::any());
    unsafe {
        core::ptr::write(&mut G_STORE, Some(store.clone()));
        BLK_ACCEPTED = 0;
        BLK_CAP = cap;
        BLK_STOPPED = false;
    }
    symbolic_summaries(MAXA);
    // the queue is full before the reducer gets scheduled
    let mut j = 0;
    while j < cap {
        let r = StoreImpl::dispatch(&store, kani::any());
        if r.is_ok() {
            unsafe {
                BLK_ACCEPTED += 1;
            }
        }
        core::mem::forget(r);
        j += 1;
    }
    // host: the loop; the producer runs while the reducer is inside the reduce phase of action 0
    rt::arm(rt::P_PHASE_REDUCE, 0, 0);
    // (when the loop later finds its queue empty the scheduler lets the client call stop())
    let ran = rt::run_loop(0);
    chk!(5, ran && unsafe { BLK_STOPPED }, "VERIF: the loop ran and was stopped when idle");
    let accepted = unsafe { BLK_ACCEPTED };
    // at the placement exactly one action had been started by the reducer
    chk!(5, accepted <= cap + 1, "accepted but not yet started actions never exceed the capacity (the reducer had started exactly one)");
    chk!(5, accepted == cap + 1, "the producer resumes as soon as the reducer made room (one slot was free)");
    chk!(5, crossbeam::channel::ghost(0).max_len <= cap, "the queue never holds more than `capacity` items");
    unsafe {
        core::ptr::write(&mut G_STORE, None);
    }
    core::mem::forget(store);
    finish!(5);
}

macro_rules! block_harness {
    ($($name:ident = $cap:expr;)+) => { $(
        glue_harness! {
            #[kani::stub(crossbeam::hooks::yield_point, crate::verif_kani::g_glue::blk_yield_pub)]
            #[kani::stub(crossbeam::hooks::block, crate::verif_kani::g_glue::blk_block_pub)]
            #[kani::unwind(8)]
            fn $name() { s_block($cap); }
        }
    )+ };
}
block_harness! {
    s_block_cap1 = 1;
    s_block_cap2 = 2;
}

/// vacuity twin
glue_plain! { #[kani::unwind(6)] fn twin_g_glue() {
    g_reset();
    let init: St = kani::any();
    let store = mk_glue_store(3, BackpressurePolicy::BlockOnFull, init);
    symbolic_summaries(2);
    core::mem::forget(StoreImpl::dispatch(&store, 1));
    core::mem::forget(StoreImpl::dispatch(&store, 2));
    store.stop();
    rt::run_loop(0);
    let fin = store.get_state();
    chk!(1, fin == init, "TWIN (wrong on purpose): state never changes");
    chk!(2, unsafe { PH[0][PH_REDUCE].act } == 2, "TWIN (wrong on purpose): LIFO");
    chk!(3, unsafe { PH[0][PH_NOTIFY].n } == 1, "TWIN (wrong on purpose): always notifies");
    chk!(4, StoreImpl::dispatch(&store, 3).is_ok(), "TWIN (wrong on purpose): dispatch after stop accepted");
    chk!(7, unsafe { PH[1][PH_REDUCE].at < PH[0][PH_NOTIFY].at }, "TWIN (wrong on purpose): overlap");
    chk!(8, unsafe { PH[0][PH_NOTIFY].seen } == init, "TWIN (wrong on purpose): state published late");
    chk!(15, false, "TWIN (wrong on purpose)");
    chk!(18, store.metrics.action_received.load(Ordering::SeqCst) == 2, "TWIN (wrong on purpose): Exit not counted");
    chk!(5, crossbeam::channel::ghost(0).max_len > 3, "TWIN (wrong on purpose)");
    core::mem::forget(store);
    finish!(1, 2, 3, 4, 5, 7, 8, 15, 18);
} }



//! C19 — two stores in one process (all phases summarised, per-store logs): operations on
//! store B (dispatch, subscribe, stop, drop) interleaved at call granularity with store A's;
//! each store's log, state, acceptance and metrics must be those of the single-store model.
#![allow(static_mut_refs)]

use super::g_glue::{PhRec, PH0, PH_EFFECT, PH_NOTIFY, PH_REDUCE};
use super::rt;
use super::script::{self, *};
use super::{chk, finish, harness};
use crate::{BackpressurePolicy, Dispatcher, DroppableStore, Effect, StoreImpl, Subscriber};
use std::sync::atomic::Ordering;
use std::sync::Arc;
use super::rt::Instant;

pub static mut PH2: [[[PhRec; 3]; MAXA]; 2] = [[[PH0; 3]; MAXA]; 2];
pub static mut NEED2: [[bool; MAXA]; 2] = [[false; MAXA]; 2];
pub static mut OUT2: [[St; MAXA]; 2] = [[ST0; MAXA]; 2];
pub static mut G2: [Option<Arc<Store>>; 2] = [None, None];

/// which of the two stores is `this` (by address)
fn sid<T>(this: &T) -> usize {
    let p = this as *const T as usize;
    unsafe {
        if let Some(b) = G2[1].as_ref() {
            if Arc::as_ptr(b) as usize == p {
                return 1;
            }
        }
    }
    0
}
fn log2(s: usize, ph: usize, st: St, act: u8) -> usize {
    // store s's dispatch queue is channel s (creation order)
    let t = crossbeam::channel::ghost(s).n_taken;
    if t == 0 || t > MAXA {
        panic!("VERIF-BOUND: action index out of range");
    }
    let j = t - 1;
    unsafe {
        let r = &mut PH2[s][j][ph];
        r.n += 1;
        r.at = rt::tick();
        r.st = st;
        r.act = act;
        r.ctx = rt::ctx();
        if let Some(x) = G2[s].as_ref() {
            r.seen = x.get_state();
        }
    }
    j
}

pub fn sum2_reduce<State, Action>(
    this: &StoreImpl<State, Action>,
    action: &Action,
    state: State,
    dispatcher: Arc<dyn Dispatcher<Action>>,
    _t: Instant,
) -> (bool, State, Option<Vec<Effect<Action>>>)
where
    State: Send + Sync + Clone + 'static,
    Action: Send + Sync + Clone + 'static,
{
    core::mem::forget(dispatcher);
    let s = sid(this);
    let st: St = unsafe { core::mem::transmute_copy(&state) };
    let act: u8 = unsafe { core::mem::transmute_copy(action) };
    core::mem::forget(state);
    let j = log2(s, PH_REDUCE, st, act);
    unsafe { (NEED2[s][j], core::mem::transmute_copy(&OUT2[s][j]), Some(Vec::with_capacity(1))) }
}
pub fn sum2_effect<State, Action>(
    this: &StoreImpl<State, Action>,
    action: &Action,
    state: &State,
    _effects: &mut Vec<Effect<Action>>,
    dispatcher: Arc<dyn Dispatcher<Action>>,
) where
    State: Send + Sync + Clone + 'static,
    Action: Send + Sync + Clone + 'static,
{
    core::mem::forget(dispatcher);
    let st: St = unsafe { core::mem::transmute_copy(state) };
    let act: u8 = unsafe { core::mem::transmute_copy(action) };
    let s = sid(this);
    let j = log2(s, PH_EFFECT, st, act);
    cross_dispatch(s, j);
}

/// G-two-cross: a callback of store A (running on A's reducer thread) dispatches to store B
pub static mut CROSS_ON: bool = false;
pub static mut CROSS_X: u8 = 0;
/// 0 = not called, 1 = Ok, 2 = Err
pub static mut CROSS_RES: u8 = 0;
pub static mut CROSS_SERVED: u8 = 0;
fn cross_dispatch(s: usize, j: usize) {
    unsafe {
        if CROSS_ON && s == 0 && j == 0 && CROSS_RES == 0 {
            if let Some(b) = G2[1].as_ref() {
                let r = StoreImpl::dispatch(b, CROSS_X);
                CROSS_RES = if r.is_ok() { 1 } else { 2 };
                core::mem::forget(r);
            }
        }
    }
}
/// B's reducer takes the head of B's queue when somebody waits for room in it
pub fn cross_block(kind: u8, obj: usize) {
    unsafe {
        if kind == crossbeam::hooks::SEND && obj == 1 && CROSS_SERVED == 0 {
            CROSS_SERVED = 1;
            crossbeam::channel::model_take_head::<crate::store_impl::ActionOp<Act>>(1);
            return;
        }
    }
    panic!("VERIF-DEADLOCK: blocked with nothing to unblock");
}
pub fn sum2_notify<State, Action>(
    this: &StoreImpl<State, Action>,
    action: &Action,
    next_state: &State,
    dispatcher: Arc<dyn Dispatcher<Action>>,
    _t: Instant,
) where
    State: Send + Sync + Clone + 'static,
    Action: Send + Sync + Clone + 'static,
{
    core::mem::forget(dispatcher);
    let st: St = unsafe { core::mem::transmute_copy(next_state) };
    let act: u8 = unsafe { core::mem::transmute_copy(action) };
    log2(sid(this), PH_NOTIFY, st, act);
}

/// native counterparts (real phases under playback)
pub struct Sum2Reducer {
    pub s: usize,
}
impl crate::Reducer<St, Act> for Sum2Reducer {
    fn reduce(&self, state: &St, action: &Act) -> crate::DispatchOp<St, Act> {
        let j = log2(self.s, PH_REDUCE, *state, *action);
        unsafe {
            if NEED2[self.s][j] {
                crate::DispatchOp::Dispatch(OUT2[self.s][j], None)
            } else {
                crate::DispatchOp::Keep(OUT2[self.s][j], None)
            }
        }
    }
}
pub struct Probe2 {
    pub s: usize,
}
impl crate::Middleware<St, Act> for Probe2 {
    fn before_effect(&self, action: &Act, state: &St, _e: &mut Vec<Effect<Act>>, d: Arc<dyn Dispatcher<Act>>) -> Result<crate::MiddlewareOp, crate::StoreError> {
        core::mem::forget(d);
        let j = log2(self.s, PH_EFFECT, *state, *action);
        cross_dispatch(self.s, j);
        Ok(crate::MiddlewareOp::ContinueAction)
    }
    fn before_dispatch(&self, action: &Act, state: &St, d: Arc<dyn Dispatcher<Act>>) -> Result<crate::MiddlewareOp, crate::StoreError> {
        core::mem::forget(d);
        log2(self.s, PH_NOTIFY, *state, *action);
        Ok(crate::MiddlewareOp::ContinueAction)
    }
}
/// one subscriber OBJECT registered with both stores
pub struct SharedSub;
pub static mut SHARED_UNSUB: u8 = 0;
impl Subscriber<St, Act> for SharedSub {
    fn on_notify(&self, _s: &St, _a: &Act) {}
    fn on_unsubscribe(&self) {
        unsafe {
            SHARED_UNSUB += 1;
        }
    }
}

fn mk2(s: usize, cap: usize, init: St) -> Arc<Store> {
    unsafe {
        if s == 0 {
            CROSS_ON = false;
            CROSS_RES = 0;
            CROSS_SERVED = 0;
        }
    }
    // both stores: same (default) name, same reducer type, same configuration shape
    let b = crate::StoreBuilder::new(init)
        .with_capacity(cap)
        .with_policy(BackpressurePolicy::BlockOnFull)
        .with_reducers(vec![Box::new(Sum2Reducer { s })])
        .with_middlewares(vec![Arc::new(Probe2 { s })]);
    match b.build() {
        Ok(x) => x,
        Err(e) => {
            core::mem::forget(e);
            panic!("VERIF-MODEL: harness store failed to build");
        }
    }
}

macro_rules! two_harness {
    ($(#[$m:meta])* fn $name:ident() $body:block) => {
        harness! {
            #[kani::stub(crate::store_impl::StoreImpl::do_reduce, crate::verif_kani::g_two::sum2_reduce)]
            #[kani::stub(crate::store_impl::StoreImpl::do_effect, crate::verif_kani::g_two::sum2_effect)]
            #[kani::stub(crate::store_impl::StoreImpl::do_notify, crate::verif_kani::g_two::sum2_notify)]
            #[kani::stub(crossbeam::hooks::yield_point, crate::verif_kani::rt::default_yield)]
            $(#[$m])*
            fn $name() $body
        }
    };
}

fn check_store(s: usize, k: usize, acts: &[u8; MAXA], init: St, at_most: u8) {
    let mut prev = init;
    let mut j = 0;
    while j < k {
        let (r, e, n) = unsafe { (PH2[s][j][PH_REDUCE], PH2[s][j][PH_EFFECT], PH2[s][j][PH_NOTIFY]) };
        let (need, out) = unsafe { (NEED2[s][j], OUT2[s][j]) };
        chk!(19, r.n == 1 && r.act == acts[j] && r.st == prev, "each store reduces exactly its own actions, in its own order, from its own state");
        chk!(19, e.n == 1 && e.st == out && e.seen == out, "each store publishes its own new state");
        chk!(19, n.n == (need as u8) && (!need || (n.st == out && n.act == acts[j])), "each store notifies for its own actions only");
        chk!(19, r.at <= at_most, "a store's accepted actions are processed before its own stop() returns");
        prev = out;
        j += 1;
    }
    if k < MAXA {
        chk!(19, unsafe { PH2[s][k][PH_REDUCE].n } == 0, "no action leaks from one store into the other");
    }
    let store = unsafe { G2[s].as_ref().unwrap() };
    chk!(19, store.get_state() == prev, "a store's final state is the fold of its own actions only");
    let mt = &store.metrics;
    chk!(19, mt.action_received.load(Ordering::SeqCst) == k + 1 && mt.action_dropped.load(Ordering::SeqCst) == 0, "a store's metrics count its own traffic only");
}

/// A and B with equal configuration; B is stopped (or dropped) while A still has a backlog
/// and keeps accepting; then A is stopped.
fn two(b_drop: bool, ka: usize, kb: usize) {
    rt::reset_all();
    script::reset();
    crossbeam::hooks::set_native(Some(rt::default_yield), None);
    unsafe {
        PH2 = [[[PH0; 3]; MAXA]; 2];
        SHARED_UNSUB = 0;
    }
    let ia: St = kani::any();
    let ib: St = kani::any();
    let a = mk2(0, 4, ia);
    let b = mk2(1, 4, ib);
    unsafe {
        core::ptr::write(&mut G2[0], Some(a.clone()));
        core::ptr::write(&mut G2[1], Some(b.clone()));
        let mut j = 0;
        while j < MAXA {
            NEED2[0][j] = kani::any();
            NEED2[1][j] = kani::any();
            OUT2[0][j] = kani::any();
            OUT2[1][j] = kani::any();
            j += 1;
        }
    }
    chk!(19, crossbeam::channel::ghost(0).cap == 4 && crossbeam::channel::ghost(1).cap == 4 && rusty_pool::ghost::pools() == 2, "every store owns its queue and its worker pool");
    // the same subscriber object on both stores
    let shared: Arc<dyn Subscriber<St, Act> + Send + Sync> = Arc::new(SharedSub);
    core::mem::forget(a.add_subscriber(shared.clone()));
    core::mem::forget(b.add_subscriber(shared.clone()));
    let mut xa = [0u8; MAXA];
    let mut xb = [0u8; MAXA];
    // interleaved dispatches
    let mut j = 0;
    while j < 2 {
        if j < ka {
            xa[j] = kani::any();
            core::mem::forget(StoreImpl::dispatch(&a, xa[j]));
        }
        if j < kb {
            xb[j] = kani::any();
            core::mem::forget(StoreImpl::dispatch(&b, xb[j]));
        }
        j += 1;
    }
    // B goes away while A is busy (backlog queued, loop not yet scheduled)
    if b_drop {
        drop(DroppableStore::new(b.clone()));
    } else {
        b.stop();
    }
    rt::run_loop(1);
    let b_done = rt::now();
    chk!(19, unsafe { PH2[0][0][PH_REDUCE].n } == 0, "stopping one store does not run or disturb the other's pipeline");
    chk!(19, a.subscribers.lock().unwrap().len() == 1 && b.subscribers.lock().unwrap().len() == 0, "stopping one store releases its own subscribers only");
    chk!(19, unsafe { SHARED_UNSUB } == 1, "a subscriber object shared by two stores is released once per store that stops");
    // A still accepts, B rejects
    let extra: Act = kani::any();
    let ra = StoreImpl::dispatch(&a, extra);
    let rb = StoreImpl::dispatch(&b, extra);
    chk!(19, ra.is_ok() && rb.is_err(), "stopping or dropping one store never changes the acceptance of actions by another");
    core::mem::forget(ra);
    core::mem::forget(rb);
    xa[ka] = extra;
    chk!(19, rusty_pool::ghost::pool(0).join_requests == 0 && rusty_pool::ghost::pool(0).shutdowns == 0, "stopping one store leaves the other's pool alone");
    a.stop();
    rt::run_loop(0);
    let a_done = rt::now();
    check_store(1, kb, &xb, ib, b_done);
    check_store(0, ka + 1, &xa, ia, a_done);
    chk!(19, unsafe { SHARED_UNSUB } == 2, "each store releases its own registration of a shared subscriber");
    unsafe {
        core::ptr::write(&mut G2[0], None);
        core::ptr::write(&mut G2[1], None);
    }
    core::mem::forget(a);
    core::mem::forget(b);
    finish!(19);
}
two_harness! { #[kani::unwind(7)] fn g_two_stop() { two(false, 2, 1); } }
two_harness! { #[kani::unwind(7)] fn g_two_drop() { two(true, 1, 2); } }
two_harness! { #[kani::unwind(7)] fn g_two_stop_idle_b() { two(false, 2, 0); } }
two_harness! { #[kani::unwind(7)] fn g_two_drop_2_2() { two(true, 2, 2); } }


// -----------------------------------------------------------------------------------------
// G-two-cross: a callback of store A, running on A's reducer thread, dispatches to store B
// whose BlockOnFull queue is full.  For B this is an ordinary client: the call waits until
// B's reducer makes room and is then accepted (no error, nothing dropped, B reduces it).
// -----------------------------------------------------------------------------------------
fn two_cross() {
    rt::reset_all();
    script::reset();
    crossbeam::hooks::set_native(Some(rt::default_yield), Some(cross_block));
    unsafe {
        PH2 = [[[PH0; 3]; MAXA]; 2];
    }
    let ia: St = kani::any();
    let ib: St = kani::any();
    let a = mk2(0, 4, ia);
    let b = mk2(1, 1, ib);
    unsafe {
        core::ptr::write(&mut G2[0], Some(a.clone()));
        core::ptr::write(&mut G2[1], Some(b.clone()));
        let mut j = 0;
        while j < MAXA {
            NEED2[0][j] = kani::any();
            NEED2[1][j] = kani::any();
            OUT2[0][j] = kani::any();
            OUT2[1][j] = kani::any();
            j += 1;
        }
        CROSS_ON = true;
        CROSS_X = kani::any();
    }
    let mut xa = [0u8; MAXA];
    xa[0] = kani::any();
    core::mem::forget(StoreImpl::dispatch(&b, kani::any())); // B's queue is full (capacity 1)
    core::mem::forget(StoreImpl::dispatch(&a, xa[0]));
    let gb0 = crossbeam::channel::ghost(1);
    a.stop();
    rt::run_loop(0);
    let a_done = rt::now();
    let gb1 = crossbeam::channel::ghost(1);
    chk!(19, unsafe { CROSS_RES } == 1, "a dispatch to store B from a callback on store A's reducer thread is an ordinary client call for B: under BlockOnFull it waits for room and is accepted");
    chk!(19, gb1.n_send_waited == gb0.n_send_waited + 1 && unsafe { CROSS_SERVED } == 1 && gb1.len == 1 && gb1.max_len <= 1, "it waited for B's reducer, then took exactly the freed slot");
    chk!(19, b.metrics.error_occurred.load(Ordering::SeqCst) == 0 && b.metrics.action_dropped.load(Ordering::SeqCst) == 0, "B counts no error and no drop for it");
    check_store(0, 1, &xa, ia, a_done);
    // (x now sits in B's queue; that B reduces what it accepted is the single-store claim)
    unsafe {
        core::ptr::write(&mut G2[0], None);
        core::ptr::write(&mut G2[1], None);
    }
    core::mem::forget(a);
    core::mem::forget(b);
    finish!(19);
}
two_harness! {
    #[kani::stub(crossbeam::hooks::block, crate::verif_kani::g_two::cross_block)]
    #[kani::unwind(7)]
    fn g_two_cross_dispatch_full_b() { two_cross(); }
}

two_harness! { #[kani::unwind(7)] fn twin_g_two() {
    rt::reset_all();
    script::reset();
    let a = mk2(0, 4, kani::any());
    let b = mk2(1, 4, kani::any());
    unsafe {
        core::ptr::write(&mut G2[0], Some(a.clone()));
        core::ptr::write(&mut G2[1], Some(b.clone()));
    }
    core::mem::forget(StoreImpl::dispatch(&a, 1));
    b.stop();
    rt::run_loop(1);
    chk!(19, StoreImpl::dispatch(&a, 2).is_err(), "TWIN (wrong on purpose): stopping B closes A");
    core::mem::forget(a);
    core::mem::forget(b);
    finish!(19);
} }

// -----------------------------------------------------------------------------------------
// B is used and stopped by another thread WHILE A's reducer is in the middle of its backlog
// (placed at a scheduling point of A's loop)
// -----------------------------------------------------------------------------------------
static mut B_ACTS: [u8; MAXA] = [0; MAXA];
static mut B_DONE_AT: u8 = 0;
static mut B_UNIT_RAN: bool = false;
static mut B_DROP: bool = false;
fn two_yield(kind: u8, obj: usize) {
    if rt::at_placement(kind, obj) {
        unsafe {
            if let Some(b) = G2[1].as_ref() {
                rt::IN_UNIT = true;
                rt::in_ctx(rt::CTX_CLIENT, || {
                    B_ACTS[1] = kani::any();
                    core::mem::forget(StoreImpl::dispatch(b, B_ACTS[1]));
                    if B_DROP {
                        drop(DroppableStore::new(b.clone()));
                    } else {
                        b.stop();
                    }
                });
                rt::IN_UNIT = false;
                B_DONE_AT = rt::now();
                B_UNIT_RAN = true;
            }
        }
    }
    rt::on_join(kind, obj);
}
pub fn two_yield_pub(kind: u8, obj: usize) {
    two_yield(kind, obj)
}

fn two_placed(b_drop: bool, kind: u8, occ: u8) {
    rt::reset_all();
    script::reset();
    crossbeam::hooks::set_native(Some(two_yield_pub), None);
    unsafe {
        PH2 = [[[PH0; 3]; MAXA]; 2];
        SHARED_UNSUB = 0;
        B_UNIT_RAN = false;
        B_DROP = b_drop;
    }
    let ia: St = kani::any();
    let ib: St = kani::any();
    let a = mk2(0, 4, ia);
    let b = mk2(1, 4, ib);
    unsafe {
        core::ptr::write(&mut G2[0], Some(a.clone()));
        core::ptr::write(&mut G2[1], Some(b.clone()));
        let mut j = 0;
        while j < MAXA {
            NEED2[0][j] = kani::any();
            NEED2[1][j] = kani::any();
            OUT2[0][j] = kani::any();
            OUT2[1][j] = kani::any();
            j += 1;
        }
    }
    let mut xa = [0u8; MAXA];
    xa[0] = kani::any();
    xa[1] = kani::any();
    core::mem::forget(StoreImpl::dispatch(&a, xa[0]));
    core::mem::forget(StoreImpl::dispatch(&a, xa[1]));
    unsafe {
        B_ACTS[0] = kani::any();
        core::mem::forget(StoreImpl::dispatch(&b, B_ACTS[0]));
    }
    // A is stopped; while its loop works through the backlog (inside the join), B gets one more
    // action and is stopped / dropped by another thread
    rt::arm(kind, 0, occ);
    a.stop();
    unsafe {
        rt::PLACE_ARMED = false;
    }
    let a_done = rt::now();
    chk!(19, unsafe { B_UNIT_RAN }, "VERIF: the operations on B ran at the placement");
    let xb = unsafe { B_ACTS };
    check_store(0, 2, &xa, ia, a_done);
    check_store(1, 2, &xb, ib, unsafe { B_DONE_AT });
    chk!(19, StoreImpl::dispatch(&a, 1).is_err() && StoreImpl::dispatch(&b, 1).is_err(), "both stores are closed, each by its own stop");
    unsafe {
        core::ptr::write(&mut G2[0], None);
        core::ptr::write(&mut G2[1], None);
    }
    core::mem::forget(a);
    core::mem::forget(b);
    finish!(19);
}
macro_rules! two_placed_harness {
    ($($name:ident = ($d:expr, $k:expr, $o:expr);)+) => { $(
        harness! {
            #[kani::stub(crate::store_impl::StoreImpl::do_reduce, crate::verif_kani::g_two::sum2_reduce)]
            #[kani::stub(crate::store_impl::StoreImpl::do_effect, crate::verif_kani::g_two::sum2_effect)]
            #[kani::stub(crate::store_impl::StoreImpl::do_notify, crate::verif_kani::g_two::sum2_notify)]
            #[kani::stub(crossbeam::hooks::yield_point, crate::verif_kani::g_two::two_yield_pub)]
            #[kani::unwind(7)]
            fn $name() { two_placed($d, $k, $o); }
        }
    )+ };
}
two_placed_harness! {
    g_two_b_stopped_while_a_between_actions = (false, crossbeam::hooks::TAKEN, 1);
    g_two_b_dropped_while_a_before_first = (true, crossbeam::hooks::RECV, 0);
    g_two_b_stopped_while_a_takes_marker = (false, crossbeam::hooks::TAKEN, 2);
}

//! Scripted user callbacks (DESIGN.md §4.3): reducers, middlewares, subscribers and effect
//! bodies whose answers come from symbolic tables and which record what they were called
//! with into fixed tables (constant indices for the symbolic executor).
#![allow(dead_code)]
#![allow(static_mut_refs)]

use super::rt;
use crate::{
    DispatchOp, Dispatcher, Effect, Middleware, MiddlewareOp, Reducer, StoreError, StoreImpl,
    Subscriber,
};
use std::sync::Arc;

/// The one concrete instantiation all harnesses use: payload + ghost step counter.
#[derive(Clone, Copy, PartialEq, Eq, Debug)]
pub struct St {
    pub val: u8,
    pub seq: u8,
}
impl kani::Arbitrary for St {
    fn any() -> Self {
        St {
            val: kani::any(),
            seq: kani::any(),
        }
    }
}
pub type Act = u8;
pub type Store = StoreImpl<St, Act>;

pub const ST0: St = St { val: 0, seq: 0 };

/// non-commutative, non-idempotent state transformer (no multiplication)
#[inline(always)]
pub fn mix(v: u8, a: u8, idx: u8) -> u8 {
    (v.rotate_left(1) ^ a).wrapping_add(idx.wrapping_mul(2).wrapping_add(1))
}

pub const MAXA: usize = 4; // actions per harness
pub const MAXR: usize = 6; // reducers (ids)
pub const MAXM: usize = 6; // middlewares (ids)
pub const MAXS: usize = 3; // subscribers
pub const MAXE: usize = MAXA * MAXR; // effect ids (one per reducer per action)

pub const H_REDUCE: usize = 0;
pub const H_EFFECT: usize = 1;
pub const H_DISPATCH: usize = 2;

pub const V_CONTINUE: u8 = 0;
pub const V_DONE: u8 = 1;
pub const V_BREAK: u8 = 2;
pub const V_ERR: u8 = 3;

pub const OP_DISPATCH: u8 = 0;
pub const OP_KEEP: u8 = 1;

pub const E_NONE: u8 = 0;
pub const E_TASK: u8 = 1;
pub const E_THUNK: u8 = 2;
pub const E_FUNCTION: u8 = 3;
pub const E_ACTION: u8 = 4;

/// One record per (action number, callback): how often it was called, with what, when,
/// and in which context.
#[derive(Clone, Copy, PartialEq, Eq, Debug)]
pub struct Rec {
    pub n: u8,
    pub at: u8,
    pub st: St,
    pub act: u8,
    pub ctx: u8,
    pub out: St,
    /// callback specific (effects seen, value read through get_state, ...)
    pub aux: u8,
    pub aux2: u8,
}
pub const REC0: Rec = Rec {
    n: 0,
    at: 0,
    st: ST0,
    act: 0,
    ctx: 0,
    out: ST0,
    aux: 0,
    aux2: 0,
};

pub static mut RED: [[Rec; MAXR]; MAXA] = [[REC0; MAXR]; MAXA];
pub static mut MW: [[[Rec; 3]; MAXM]; MAXA] = [[[REC0; 3]; MAXM]; MAXA];
pub static mut MW_ERR: [[u8; MAXM]; MAXA] = [[0; MAXM]; MAXA];
pub static mut SUB: [[Rec; MAXS]; MAXA] = [[REC0; MAXS]; MAXA];
pub static mut UNSUB: [u8; MAXS] = [0; MAXS];
pub static mut UNSUB_AT: [u8; MAXS] = [0; MAXS];
pub static mut EFF_RUN: [u8; MAXE] = [0; MAXE];
pub static mut EFF_CTX: [u8; MAXE] = [0; MAXE];
pub static mut EFF_AT: [u8; MAXE] = [0; MAXE];
/// result of the follow-up dispatch made by a thunk body (0 none, 1 Ok, 2 Err)
pub static mut EFF_DISPATCH: [u8; MAXE] = [0; MAXE];

// ---- symbolic tables -------------------------------------------------------------------
pub static mut PLAN_OP: [[u8; MAXR]; MAXA] = [[0; MAXR]; MAXA];
pub static mut PLAN_EFF: [[u8; MAXR]; MAXA] = [[0; MAXR]; MAXA];
pub static mut PLAN_ARG: [[u8; MAXR]; MAXA] = [[0; MAXR]; MAXA];
pub static mut VERDICT: [[[u8; 3]; MAXM]; MAXA] = [[[0; 3]; MAXM]; MAXA];
/// bit e set: middleware removes the effect at position e (as it sees the list)
pub static mut MW_REMOVE: [[u8; MAXM]; MAXA] = [[0; MAXM]; MAXA];
/// subscribers / middlewares read get_state() inside their callbacks
pub static mut READ_IN_CALLBACKS: bool = false;
/// last reducer index (it increments the ghost `seq`)
pub static mut LAST_REDUCER: u8 = 0;

// ---- which action is being processed ---------------------------------------------------
/// 0: `CUR` is set by the harness (unit harnesses); 1: derived from the number of items
/// taken from channel `CUR_CHAN` (the store's dispatch queue) so far.
pub static mut CUR_MODE: u8 = 0;
pub static mut CUR: usize = 0;
pub static mut CUR_CHAN: usize = 0;

#[inline(always)]
pub fn cur() -> usize {
    let j = unsafe {
        if CUR_MODE == 0 {
            CUR
        } else {
            let t = crossbeam::channel::ghost(CUR_CHAN).n_taken;
            if t == 0 {
                panic!("VERIF-MODEL: callback before any action was taken from the queue");
            }
            t - 1
        }
    };
    if j >= MAXA {
        panic!("VERIF-BOUND: more than MAXA actions processed");
    }
    j
}

/// store under test, for callbacks that read `get_state()` (set by the harness)
pub static mut STORE: Option<Arc<Store>> = None;

pub fn reset() {
    reset_tables();
    unsafe {
        super::VIOL = [false; 20];
    }
}

/// everything except the verdict flags (harnesses that make several runs)
pub fn reset_tables() {
    unsafe {
        RED = [[REC0; MAXR]; MAXA];
        MW = [[[REC0; 3]; MAXM]; MAXA];
        MW_ERR = [[0; MAXM]; MAXA];
        SUB = [[REC0; MAXS]; MAXA];
        UNSUB = [0; MAXS];
        UNSUB_AT = [0; MAXS];
        EFF_RUN = [0; MAXE];
        EFF_CTX = [0; MAXE];
        EFF_AT = [0; MAXE];
        EFF_DISPATCH = [0; MAXE];
        PLAN_OP = [[0; MAXR]; MAXA];
        PLAN_EFF = [[0; MAXR]; MAXA];
        PLAN_ARG = [[0; MAXR]; MAXA];
        VERDICT = [[[0; 3]; MAXM]; MAXA];
        MW_REMOVE = [[0; MAXM]; MAXA];
        READ_IN_CALLBACKS = false;
        LAST_REDUCER = 0;
        CUR_MODE = 0;
        CUR = 0;
        CUR_CHAN = 0;
        core::ptr::write(&mut STORE, None);
    }
}

/// Make the plan of actions `0..na`, reducers `0..nr` symbolic: Dispatch/Keep and — when
/// `effects` — an optional effect of a kind taken from `kinds` (bit mask over E_*).
pub fn symbolic_plan(na: usize, nr: usize, effect_kinds: u8) {
    let mut j = 0;
    while j < na {
        let mut i = 0;
        while i < nr {
            let op: u8 = kani::any();
            kani::assume(op <= 1);
            let eff: u8 = if effect_kinds == 0 { 0 } else { kani::any() };
            kani::assume(eff <= 4);
            kani::assume(eff == 0 || (effect_kinds >> eff) & 1 == 1);
            unsafe {
                PLAN_OP[j][i] = op;
                PLAN_EFF[j][i] = eff;
                PLAN_ARG[j][i] = kani::any();
            }
            i += 1;
        }
        j += 1;
    }
    unsafe {
        LAST_REDUCER = (nr as u8).wrapping_sub(1);
    }
}

/// Make the verdicts of middlewares `0..nm` for actions `0..na` symbolic.
pub fn symbolic_verdicts(na: usize, nm: usize) {
    let mut j = 0;
    while j < na {
        let mut m = 0;
        while m < nm {
            let mut h = 0;
            while h < 3 {
                let v: u8 = kani::any();
                kani::assume(v <= 3);
                unsafe {
                    VERDICT[j][m][h] = v;
                }
                h += 1;
            }
            m += 1;
        }
        j += 1;
    }
}

#[inline(always)]
pub fn eff_id(j: usize, idx: usize) -> usize {
    j * MAXR + idx
}

// ---- effects -----------------------------------------------------------------------------
fn effect_ran(e: usize) {
    rt::yield_point(rt::P_EFFECT_BODY, e);
    unsafe {
        EFF_RUN[e] += 1;
        EFF_CTX[e] = rt::ctx();
        EFF_AT[e] = rt::tick();
    }
}

pub fn make_effect(kind: u8, e: usize, arg: u8) -> Option<Effect<Act>> {
    make_effect_g::<Act>(kind, e, arg)
}

/// generic in the action type so that summary stubs (which must carry the generic
/// signature of the function they replace) can build effects without reinterpreting a
/// whole `Effect` value; the only instantiation is `Action = u8`
pub fn make_effect_g<Action: Send + Sync + Clone + 'static>(kind: u8, e: usize, arg: u8) -> Option<Effect<Action>> {
    assert!(core::mem::size_of::<Action>() == 1);
    let a: Action = unsafe { core::mem::transmute_copy::<u8, Action>(&arg) };
    match kind {
        E_TASK => {
            core::mem::forget(a);
            Some(Effect::Task(Box::new(move || effect_ran(e))))
        }
        E_THUNK => Some(Effect::Thunk(Box::new(move |d: Box<dyn Dispatcher<Action>>| {
            effect_ran(e);
            // the thunk uses the dispatcher it was handed
            if arg & 1 == 1 {
                let r = d.dispatch(a);
                unsafe {
                    EFF_DISPATCH[e] = if r.is_ok() { 1 } else { 2 };
                }
                core::mem::forget(r);
            }
            core::mem::forget(d);
        }))),
        E_FUNCTION => {
            core::mem::forget(a);
            Some(Effect::Function(
                String::new(),
                Box::new(move || {
                    effect_ran(e);
                    Ok(Box::new(()) as Box<dyn std::any::Any + Send>)
                }),
            ))
        }
        E_ACTION => Some(Effect::Action(a)),
        _ => None,
    }
}

// ---- reducer -----------------------------------------------------------------------------
pub struct ScriptReducer {
    pub idx: u8,
}
impl Reducer<St, Act> for ScriptReducer {
    fn reduce(&self, state: &St, action: &Act) -> DispatchOp<St, Act> {
        let j = cur();
        let i = self.idx as usize;
        rt::yield_point(rt::P_REDUCE, i);
        let last = unsafe { LAST_REDUCER } == self.idx;
        let out = St {
            val: mix(state.val, *action, self.idx),
            seq: if last {
                state.seq.wrapping_add(1)
            } else {
                state.seq
            },
        };
        unsafe {
            let r = &mut RED[j][i];
            r.n += 1;
            r.at = rt::tick();
            r.st = *state;
            r.act = *action;
            r.ctx = rt::ctx();
            r.out = out;
        }
        let eff = unsafe { make_effect(PLAN_EFF[j][i], eff_id(j, i), PLAN_ARG[j][i]) };
        if unsafe { PLAN_OP[j][i] } == OP_KEEP {
            DispatchOp::Keep(out, eff)
        } else {
            DispatchOp::Dispatch(out, eff)
        }
    }
}

// ---- middleware --------------------------------------------------------------------------
pub struct ScriptMiddleware {
    pub idx: u8,
}
impl ScriptMiddleware {
    fn hook(&self, h: usize, action: &Act, state: &St, aux: u8) -> Result<MiddlewareOp, StoreError> {
        let j = cur();
        let m = self.idx as usize;
        rt::yield_point(rt::P_BEFORE_REDUCE + h as u8, m);
        unsafe {
            let r = &mut MW[j][m][h];
            r.n += 1;
            r.at = rt::tick();
            r.st = *state;
            r.act = *action;
            r.ctx = rt::ctx();
            r.aux = aux;
            if READ_IN_CALLBACKS {
                if let Some(s) = STORE.as_ref() {
                    r.out = s.get_state();
                }
            }
            match VERDICT[j][m][h] {
                V_CONTINUE => Ok(MiddlewareOp::ContinueAction),
                V_DONE => Ok(MiddlewareOp::DoneAction),
                V_BREAK => Ok(MiddlewareOp::BreakChain),
                _ => Err(StoreError::MiddlewareError(String::new())),
            }
        }
    }
}
impl Middleware<St, Act> for ScriptMiddleware {
    fn before_reduce(
        &self,
        action: &Act,
        state: &St,
        dispatcher: Arc<dyn Dispatcher<Act>>,
    ) -> Result<MiddlewareOp, StoreError> {
        core::mem::forget(dispatcher);
        self.hook(H_REDUCE, action, state, 0)
    }
    fn before_effect(
        &self,
        action: &Act,
        state: &St,
        effects: &mut Vec<Effect<Act>>,
        dispatcher: Arc<dyn Dispatcher<Act>>,
    ) -> Result<MiddlewareOp, StoreError> {
        core::mem::forget(dispatcher);
        let seen = effects.len() as u8;
        let j = cur();
        let mask = unsafe { MW_REMOVE[j][self.idx as usize] };
        // remove (and leak, to keep drop glue out of the formula) the effects named by mask,
        // highest position first so that positions stay those the middleware saw
        if mask & 2 != 0 && effects.len() > 1 {
            core::mem::forget(effects.remove(1));
        }
        if mask & 1 != 0 && effects.len() > 0 {
            core::mem::forget(effects.remove(0));
        }
        self.hook(H_EFFECT, action, state, seen)
    }
    fn before_dispatch(
        &self,
        action: &Act,
        state: &St,
        dispatcher: Arc<dyn Dispatcher<Act>>,
    ) -> Result<MiddlewareOp, StoreError> {
        core::mem::forget(dispatcher);
        self.hook(H_DISPATCH, action, state, 0)
    }
    fn on_error(&self, error: StoreError) {
        core::mem::forget(error);
        let j = cur();
        unsafe {
            MW_ERR[j][self.idx as usize] += 1;
        }
    }
}

// ---- subscriber --------------------------------------------------------------------------
pub struct ScriptSubscriber {
    pub idx: u8,
}
impl Subscriber<St, Act> for ScriptSubscriber {
    fn on_notify(&self, state: &St, action: &Act) {
        let j = cur();
        let i = self.idx as usize;
        rt::yield_point(rt::P_NOTIFY, i);
        unsafe {
            let r = &mut SUB[j][i];
            r.n += 1;
            r.at = rt::tick();
            r.st = *state;
            r.act = *action;
            r.ctx = rt::ctx();
            if READ_IN_CALLBACKS {
                if let Some(s) = STORE.as_ref() {
                    r.out = s.get_state();
                }
            }
        }
    }
    fn on_unsubscribe(&self) {
        let i = self.idx as usize;
        rt::yield_point(rt::P_UNSUBSCRIBED, i);
        unsafe {
            UNSUB[i] += 1;
            UNSUB_AT[i] = rt::tick();
        }
    }
}

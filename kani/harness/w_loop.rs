//! W- harnesses: the REAL reducer loop closure of `StoreImpl::new_with` with the real phases,
//! driven under the deferred schedules of DESIGN.md §4.4:
//!   S1  dispatch* ; stop()                       (loop starved until the join)
//!   S2  dispatch* ; close() ; loop runs ; stop() (loop scheduled between close and join)
//! and `drop(DroppableStore)` in place of stop() (C15).
//! Oracles: C01 (fold, final state), C03 (notifications), C04 (barrier, finality),
//! C07 (phase order, one action at a time, context), C08 (state published before
//! notification, reads inside callbacks), C09 (on_unsubscribe once at shutdown), C15, C18.
#![allow(static_mut_refs)]

use super::rt;
use super::script::{self, *};
use super::u_phase::{add_subs, check_hooks, mk_store, mw_model};
use super::{chk, finish, harness};
use crate::{BackpressurePolicy, Dispatcher, DroppableStore, Store as StoreTrait};
use std::sync::atomic::Ordering;
use std::sync::Arc;

pub const END_STOP: u8 = 0; // S1: stop() with the backlog queued
pub const END_CLOSE_STOP: u8 = 1; // S2: close(); loop; stop()
pub const END_DROP: u8 = 2; // S1 with drop(DroppableStore)

pub struct Cfg {
    pub k: usize,  // actions
    pub nr: usize, // reducers
    pub nm: usize, // middlewares (verdicts symbolic iff sym_verdicts)
    pub ns: usize, // direct subscribers
    pub cap: usize,
    pub end: u8,
    pub sym_verdicts: bool,
    pub read_in_callbacks: bool,
}

/// drive one scenario and check everything that is observable
pub fn w_run(c: &Cfg) {
    rt::reset_all();
    script::reset();
    let init: St = kani::any();
    let store = mk_store(c.nr, c.nm, c.cap, BackpressurePolicy::BlockOnFull, init);
    add_subs(&store, c.ns);
    unsafe {
        CUR_MODE = 1;
        CUR_CHAN = 0;
        READ_IN_CALLBACKS = c.read_in_callbacks;
        if c.read_in_callbacks {
            core::ptr::write(&mut STORE, Some(store.clone()));
        }
    }
    symbolic_plan(c.k, c.nr, 0);
    if c.sym_verdicts {
        symbolic_verdicts(c.k, c.nm);
    }
    // --- client: dispatch the backlog -------------------------------------------------
    let mut acts = [0u8; MAXA];
    let mut j = 0;
    while j < c.k {
        acts[j] = kani::any();
        let r = crate::StoreImpl::dispatch(&store, acts[j]);
        chk!(5, r.is_ok(), "BlockOnFull dispatch with room is accepted");
        core::mem::forget(r);
        j += 1;
    }
    let before_stop = rt::now();
    chk!(7, before_stop == 0, "no callback runs on the dispatching thread");
    // --- client: shut down -------------------------------------------------------------
    match c.end {
        END_CLOSE_STOP => {
            store.close();
            let ran = rt::run_loop(0);
            chk!(4, ran, "VERIF: reducer loop task recognised");
            store.stop();
        }
        END_DROP => {
            let d = DroppableStore::new(store.clone());
            drop(d);
            rt::run_loop(0);
        }
        _ => {
            store.stop();
            rt::run_loop(0);
        }
    }
    rt::run_pending(4);
    let at_stop_return = rt::now();
    let pg = rusty_pool::ghost::pool(0);
    chk!(4, pg.join_requests >= 1 && pg.shutdowns >= 1, "stop() shuts the pool down and joins it");
    if c.end == END_DROP {
        chk!(15, pg.join_requests >= 1 && pg.shutdowns >= 1, "dropping a DroppableStore stops the store although other clones exist");
    }
    let lt = rusty_pool::ghost::loop_task(0);
    match lt {
        Some(t) => chk!(4, rusty_pool::ghost::task(t).state == rusty_pool::ST_DONE, "the reducer loop has terminated when stop() returns"),
        None => panic!("VERIF-MODEL: no reducer loop task recognised"),
    }

    // --- oracle: per action ---------------------------------------------------------------
    let mut prev_state = init;
    let mut prev_last_at = 0u8;
    let mut n_notifying = 0usize;
    let mut n_reduced = 0usize;
    let mut hooks = 0usize;
    let mut j = 0;
    while j < c.k {
        let a = acts[j];
        let mr = mw_model(j, c.nm, H_REDUCE);
        check_hooks(j, c.nm, H_REDUCE, &mr, prev_state, a, rt::CTX_REDUCER);
        hooks += mr.n_called;
        let mut first_at = 255u8;
        let mut last_at = 0u8;
        let mut k = 0;
        while k < c.nm {
            if mr.called[k] {
                let at = unsafe { MW[j][k][H_REDUCE].at };
                if at < first_at {
                    first_at = at;
                }
                if at > last_at {
                    last_at = at;
                }
                if c.read_in_callbacks {
                    chk!(8, unsafe { MW[j][k][H_REDUCE].out } == prev_state, "get_state() inside before_reduce returns the state left by the previous action");
                }
            }
            k += 1;
        }
        let mut out = prev_state;
        let mut need = true;
        if !mr.done {
            n_reduced += 1;
            let mut i = 0;
            while i < c.nr {
                let rec = unsafe { RED[j][i] };
                chk!(1, rec.n == 1, "every accepted action goes through every reducer exactly once");
                chk!(1, rec.st == out && rec.act == a, "each reducer gets the previous reducer's state; each action starts from the state left by the previous action");
                chk!(2, rec.act == a, "actions are reduced in dispatch order");
                chk!(7, rec.at > last_at && rec.ctx == rt::CTX_REDUCER, "reducers run after the before_reduce hooks, in order, in the reducer context");
                if rec.at < first_at {
                    first_at = rec.at;
                }
                last_at = rec.at;
                out = rec.out;
                i += 1;
            }
            need = unsafe { PLAN_OP[j][c.nr - 1] } == OP_DISPATCH;
        } else {
            let mut i = 0;
            while i < c.nr {
                chk!(12, unsafe { RED[j][i].n } == 0, "a vetoed action reaches no reducer");
                i += 1;
            }
        }
        // effect phase hooks see the post-state (no effects in this harness family)
        let me = mw_model(j, c.nm, H_EFFECT);
        check_hooks(j, c.nm, H_EFFECT, &me, out, a, rt::CTX_REDUCER);
        hooks += me.n_called;
        let mut k = 0;
        while k < c.nm {
            if me.called[k] {
                let at = unsafe { MW[j][k][H_EFFECT].at };
                chk!(7, at > last_at, "before_effect hooks run after the reducers");
                last_at = at;
                if c.read_in_callbacks {
                    chk!(8, unsafe { MW[j][k][H_EFFECT].out } == out, "the new state is published before the effect phase starts");
                }
            }
            k += 1;
        }
        // notification phase
        if need {
            let md = mw_model(j, c.nm, H_DISPATCH);
            check_hooks(j, c.nm, H_DISPATCH, &md, out, a, rt::CTX_REDUCER);
            hooks += md.n_called;
            let mut k = 0;
            while k < c.nm {
                if md.called[k] {
                    let at = unsafe { MW[j][k][H_DISPATCH].at };
                    chk!(7, at > last_at, "before_dispatch hooks run after the before_effect hooks");
                    last_at = at;
                    if c.read_in_callbacks {
                        chk!(8, unsafe { MW[j][k][H_DISPATCH].out } == out, "get_state() inside before_dispatch already returns this action's state");
                    }
                }
                k += 1;
            }
            if !md.done && !mr.done {
                n_notifying += 1;
            }
            let mut i = 0;
            while i < c.ns {
                let rec = unsafe { SUB[j][i] };
                if md.done {
                    chk!(12, rec.n == 0, "DoneAction from before_dispatch suppresses the subscribers but keeps the new state");
                } else if !mr.done {
                    chk!(3, rec.n == 1, "a subscriber registered for the whole run is called exactly once per notifying action");
                    chk!(3, rec.st == out && rec.act == a, "the notification carries exactly the state produced by that action, and the action");
                    chk!(3, rec.at > last_at, "subscribers are called in registration order, actions in reduce order");
                    chk!(7, rec.ctx == rt::CTX_REDUCER, "direct subscribers run in the reducer context");
                    chk!(4, rec.at <= at_stop_return, "every accepted action is notified before stop() returns");
                    if c.read_in_callbacks {
                        chk!(8, rec.out == out, "while a subscriber is told about an action get_state() already returns that action's state");
                    }
                    last_at = rec.at;
                }
                i += 1;
            }
        } else {
            let mut i = 0;
            while i < c.ns {
                chk!(3, unsafe { SUB[j][i].n } == 0, "no notification for an action whose reducers answer Keep");
                i += 1;
            }
            let mut k = 0;
            while k < c.nm {
                chk!(12, unsafe { MW[j][k][H_DISPATCH].n } == 0, "no before_dispatch hook runs for a Keep answer");
                k += 1;
            }
        }
        // one action at a time: nothing of action j started before action j-1 finished
        if first_at != 255 {
            chk!(7, first_at > prev_last_at, "no callback of the next action starts before the last callback of the current one returned");
        }
        if last_at > prev_last_at {
            prev_last_at = last_at;
        }
        prev_state = out;
        j += 1;
    }
    // actions beyond k never appear
    if c.k < MAXA {
        chk!(1, unsafe { RED[c.k][0].n } == 0, "no action is reduced that was not dispatched");
    }

    // --- oracle: end state ------------------------------------------------------------------
    let fin = store.get_state();
    chk!(1, fin == prev_state, "after stop() get_state() is the state after the last reduced action (Dispatch or Keep alike)");
    chk!(8, fin == prev_state, "get_state() returns the state left by the last reduced action");
    chk!(4, prev_last_at <= at_stop_return, "every accepted action is completely processed when stop() returns");
    if c.end == END_DROP {
        chk!(15, fin == prev_state, "after the drop every clone sees the final state with all accepted actions processed");
    }
    // subscribers released exactly once at shutdown
    let mut i = 0;
    while i < c.ns {
        chk!(9, unsafe { UNSUB[i] } == 1, "every registered subscriber gets on_unsubscribe exactly once at store shutdown");
        chk!(4, unsafe { UNSUB[i] } == 1, "loop exit releases the subscribers before stop() returns");
        if c.end == END_DROP {
            chk!(15, unsafe { UNSUB[i] } == 1, "drop releases the subscribers");
        }
        i += 1;
    }
    chk!(9, store.subscribers.lock().unwrap().len() == 0, "the subscriber list is empty after shutdown");

    // --- oracle: finality ---------------------------------------------------------------------
    let clock = rt::now();
    let g = crossbeam::channel::ghost(0);
    let extra: Act = kani::any();
    let r1 = crate::StoreImpl::dispatch(&store, extra);
    let d: Arc<Store> = store.clone();
    let r2 = Dispatcher::dispatch(&d, extra);
    let r3 = <Store as StoreTrait<St, Act>>::dispatch(&store, extra);
    chk!(4, r1.is_err() && r2.is_err() && r3.is_err(), "after stop() dispatch through every entry point returns a DispatchError");
    if c.end == END_DROP {
        chk!(15, r1.is_err() && r2.is_err() && r3.is_err(), "after the drop every remaining clone rejects dispatches");
    }
    core::mem::forget(r1);
    core::mem::forget(r2);
    core::mem::forget(r3);
    core::mem::forget(d);
    store.stop();
    store.close();
    store.stop();
    rt::run_pending(2);
    let g2 = crossbeam::channel::ghost(0);
    chk!(4, rt::now() == clock && g2.len == g.len && g2.n_taken == g.n_taken, "after stop() nothing changes: no callback, nothing enqueued, further stop() calls do nothing");
    chk!(4, store.get_state() == fin, "after stop() the state no longer changes");
    let snap = store.get_metrics();
    chk!(18, snap.error_occurred == 2, "error_occurred counts the dispatches StoreImpl::dispatch rejected after close (inherent + Store trait entry points)");

    // --- oracle: metrics balance ----------------------------------------------------------------
    let mt = &store.metrics;
    chk!(18, mt.action_received.load(Ordering::SeqCst) == c.k + 1, "actions received (+1 for the shutdown marker) + dropped = dispatched while open");
    chk!(18, mt.action_dropped.load(Ordering::SeqCst) == 0, "BlockOnFull drops nothing");
    chk!(18, mt.action_reduced.load(Ordering::SeqCst) == n_reduced, "actions reduced = received minus vetoed");
    chk!(18, mt.middleware_executed.load(Ordering::SeqCst) == hooks, "middleware executions = hooks actually invoked");
    chk!(18, mt.effect_issued.load(Ordering::SeqCst) == 0, "no effects issued when reducers return none");
    let _ = n_notifying;
    chk!(5, crossbeam::channel::ghost(0).max_len <= c.cap, "the queue never held more than `capacity` items");
    unsafe {
        core::ptr::write(&mut STORE, None);
    }
    core::mem::forget(store);
    finish!(1, 2, 3, 4, 5, 7, 8, 9, 12, 15, 18);
}

macro_rules! w {
    ($name:ident, $unwind:expr, $cfg:expr) => {
        harness! { #[kani::unwind($unwind)] fn $name() { let c: Cfg = $cfg; w_run(&c); } }
    };
}

// quick tier: one action through the whole real pipeline (the cross-check (X) of §4.5)
w!(w_pipe_k1, 6, Cfg { k: 1, nr: 2, nm: 1, ns: 2, cap: 2, end: END_STOP, sym_verdicts: false, read_in_callbacks: true });
w!(w_pipe_k1_close_stop, 6, Cfg { k: 1, nr: 1, nm: 1, ns: 1, cap: 2, end: END_CLOSE_STOP, sym_verdicts: true, read_in_callbacks: false });
w!(w_pipe_k1_drop, 6, Cfg { k: 1, nr: 1, nm: 0, ns: 1, cap: 2, end: END_DROP, sym_verdicts: false, read_in_callbacks: false });
w!(w_pipe_k0_stop, 6, Cfg { k: 0, nr: 1, nm: 0, ns: 1, cap: 1, end: END_STOP, sym_verdicts: false, read_in_callbacks: false });
// two / three actions
w!(w_fold_k2, 6, Cfg { k: 2, nr: 2, nm: 0, ns: 1, cap: 3, end: END_STOP, sym_verdicts: false, read_in_callbacks: true });
w!(w_fold_k2_mw, 6, Cfg { k: 2, nr: 1, nm: 1, ns: 2, cap: 3, end: END_CLOSE_STOP, sym_verdicts: true, read_in_callbacks: false });
w!(w_fold_k2_drop, 6, Cfg { k: 2, nr: 1, nm: 0, ns: 1, cap: 3, end: END_DROP, sym_verdicts: false, read_in_callbacks: false });
w!(w_fold_k3, 7, Cfg { k: 3, nr: 1, nm: 0, ns: 1, cap: 4, end: END_STOP, sym_verdicts: false, read_in_callbacks: false });

//! Kani proof harnesses for rs-store (pulled into the crate by hook H1 under `cfg(kani)`).
//! See /verif/DESIGN.md.  Nothing in here is compiled by a normal `cargo build/test`.
#![allow(dead_code)]
#![allow(unused_imports)]
#![allow(unused_macros)]
#![allow(static_mut_refs)]
#![allow(clippy::all)]

pub mod rt;

/// Verdict flags, one per property (index = number in the property id, C01 → 1).
/// Oracles *record* a violated condition instead of asserting it on the spot, and
/// `finish()` asserts one nondeterministically chosen flag: the solver thereby decides
/// every property's flag independently (a Kani `assert!` is followed by an implicit
/// `assume`, which would let an earlier failing oracle mask a later one).
pub static mut VIOL: [bool; 20] = [false; 20];

#[inline(always)]
pub fn record(p: usize, cond: bool, msg: &'static str) {
    if !cond {
        unsafe {
            VIOL[p] = true;
        }
        // `_eprint` is stubbed to a no-op under CBMC; under native playback this prints
        // which oracle fired.
        eprintln!("ORACLE-FAILED C{:02}: {}", p, msg);
    }
}

macro_rules! chk {
    ($p:expr, $cond:expr, $msg:expr) => {
        crate::verif_kani::record($p, $cond, $msg)
    };
}
pub(crate) use chk;

/// Final verdict of a harness: one tagged assertion per property the harness serves.
/// `VERIF_PICK` (read natively only) is not needed: the choice is a `kani::any()` and is
/// part of the concrete playback vector.
macro_rules! finish {
    ($($p:literal),+) => {{
        let pick: u8 = kani::any();
        $(
            if pick == $p {
                kani::assert(
                    !unsafe { crate::verif_kani::VIOL[$p as usize] },
                    concat!("PROPERTY C", stringify!($p), " violated (oracle flag set)"),
                );
            }
        )+
        kani::cover!(true, "COVER end of harness reached");
    }};
}
pub(crate) use finish;

/// Attributes every harness carries (environment stubs of DESIGN.md §4.2).
macro_rules! harness {
    ($(#[$m:meta])* fn $name:ident() $body:block) => {
        #[kani::proof]
        #[kani::stub(std::sync::Arc::drop_slow, crate::verif_kani::rt::arc_drop_slow)]
        #[kani::stub(std::fmt::format, crate::verif_kani::rt::fmt_format)]
        #[kani::stub(std::io::_print, crate::verif_kani::rt::io_print)]
        #[kani::stub(std::io::_eprint, crate::verif_kani::rt::io_print)]
        #[kani::stub(std::time::Instant::now, crate::verif_kani::rt::instant_now)]
        #[kani::stub(std::time::Instant::elapsed, crate::verif_kani::rt::instant_elapsed)]
        #[kani::stub(std::sync::Mutex::lock, crate::verif_kani::rt::mutex_lock)]
        $(#[$m])*
        pub fn $name() $body
    };
}
pub(crate) use harness;

pub mod script;

pub mod u_selector;
pub mod u_builder;
pub mod u_builder_gen;
pub mod u_chan;
pub mod u_phase;
pub mod w_loop;
pub mod g_glue;
pub mod u_subs;
pub mod g_effects;
pub mod g_notify;
pub mod g_two;
pub mod u_iter;

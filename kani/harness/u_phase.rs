//! Unit harnesses on the three pipeline phases of store_impl.rs, each driven directly on a
//! real store with scripted reducers / middlewares / subscribers whose answers are symbolic
//! (DESIGN.md §5: U-reduce, U-effect, U-notify).  They decide the per-phase obligations
//! (P-reduce), (P-effect), (P-notify) of the composition argument and carry the oracles of
//! C12 (verdicts), C01 (chain threading), C03 (subscribers), C07 (order, context),
//! C11 (effects submitted, not run inline, run once) and C18 (counter deltas).
#![allow(static_mut_refs)]

use super::rt;
use super::script::{self, *};
use super::{chk, finish, harness};
use crate::metrics::CountMetrics;
use crate::{BackpressurePolicy, Dispatcher, Effect, StoreBuilder, Subscriber};
use std::sync::atomic::Ordering;
use std::sync::Arc;

/// a store with `nr` scripted reducers and `nm` scripted middlewares (ids = positions)
pub fn mk_store(nr: usize, nm: usize, cap: usize, policy: BackpressurePolicy, init: St) -> Arc<Store> {
    // exact-size vectors: a Vec that was grown by push has been realloc'ed (memcpy), after
    // which CBMC no longer constant-propagates the boxed callbacks' addresses (measured:
    // 0.2 M -> 2 M SAT variables)
    let rd = |i: u8| -> Box<dyn crate::Reducer<St, Act> + Send + Sync> { Box::new(ScriptReducer { idx: i }) };
    let mw = |i: u8| -> Arc<dyn crate::Middleware<St, Act> + Send + Sync> { Arc::new(ScriptMiddleware { idx: i }) };
    let mut b = StoreBuilder::new(init).with_capacity(cap).with_policy(policy);
    b = match nr {
        0 => b.without_reducer(),
        1 => b.with_reducers(vec![rd(0)]),
        2 => b.with_reducers(vec![rd(0), rd(1)]),
        _ => b.with_reducers(vec![rd(0), rd(1), rd(2)]),
    };
    b = match nm {
        0 => b,
        1 => b.with_middlewares(vec![mw(0)]),
        2 => b.with_middlewares(vec![mw(0), mw(1)]),
        _ => b.with_middlewares(vec![mw(0), mw(1), mw(2)]),
    };
    unsafe {
        LAST_REDUCER = (nr as u8).wrapping_sub(1);
    }
    match b.build() {
        Ok(s) => s,
        Err(e) => {
            core::mem::forget(e);
            panic!("VERIF-MODEL: harness store failed to build");
        }
    }
}

pub fn add_subs(store: &Arc<Store>, ns: usize) {
    let mut i = 0;
    while i < ns {
        let sub: Arc<dyn Subscriber<St, Act> + Send + Sync> = Arc::new(ScriptSubscriber { idx: i as u8 });
        core::mem::forget(store.add_subscriber(sub));
        i += 1;
    }
}

fn m(store: &Arc<Store>) -> &CountMetrics {
    &store.metrics
}

/// reference model of one middleware phase (middleware.rs doc comment + property C12):
/// hook i is called iff no earlier hook of the phase answered Break; Done is remembered;
/// Err goes once to on_error and is otherwise Continue.
pub struct MwModel {
    pub called: [bool; MAXM],
    pub errs: [u8; MAXM],
    pub done: bool,
    pub n_called: usize,
}
pub fn mw_model(j: usize, nm: usize, h: usize) -> MwModel {
    let mut r = MwModel { called: [false; MAXM], errs: [0; MAXM], done: false, n_called: 0 };
    let mut broke = false;
    let mut k = 0;
    while k < nm {
        if !broke {
            r.called[k] = true;
            r.n_called += 1;
            match unsafe { VERDICT[j][k][h] } {
                V_DONE => r.done = true,
                V_BREAK => broke = true,
                V_ERR => r.errs[k] = 1,
                _ => {}
            }
        }
        k += 1;
    }
    r
}

/// compare the recorded hook calls of phase `h` of action `j` with the model
pub fn check_hooks(j: usize, nm: usize, h: usize, mm: &MwModel, st: St, act: Act, ctx: u8) {
    let mut k = 0;
    let mut prev_at = 0u8;
    while k < nm {
        let rec = unsafe { MW[j][k][h] };
        if mm.called[k] {
            chk!(12, rec.n == 1, "middleware hook is called exactly once unless an earlier hook of the phase answered BreakChain");
            chk!(12, rec.st == st && rec.act == act, "hook sees the documented state (pre-state for before_reduce, post-state for before_effect/before_dispatch) and the action");
            chk!(7, rec.n == 1 && rec.at > prev_at, "hooks of one phase run in registration order");
            chk!(7, rec.ctx == ctx, "hooks run in the reducer context");
            prev_at = rec.at;
        } else {
            chk!(12, rec.n == 0, "BreakChain skips the remaining middlewares of that phase");
        }
        k += 1;
    }
}
pub fn check_errs(j: usize, nm: usize, errs: &[u8; MAXM]) {
    let mut k = 0;
    while k < nm {
        chk!(12, unsafe { MW_ERR[j][k] } == errs[k], "an Err verdict is handed exactly once to that middleware's on_error");
        k += 1;
    }
}

// -----------------------------------------------------------------------------------------
// U-reduce
// -----------------------------------------------------------------------------------------
/// `kinds[i]`: the (concrete) kind of effect reducer i attaches — a symbolic kind merges
/// differently shaped boxed closures and costs millions of SAT variables (measured)
/// `ops[i]`: OP_DISPATCH / OP_KEEP, or 2 = symbolic (only for a reducer without effect:
/// pushing an effect in both arms of a symbolic match merges two vector buffers).
fn u_reduce(nr: usize, nm: usize, kinds: [u8; 3], ops: [u8; 3]) {
    rt::reset_all();
    script::reset();
    let store = mk_store(nr, nm, 4, BackpressurePolicy::BlockOnFull, kani::any());
    symbolic_plan(1, nr, 0);
    unsafe {
        PLAN_EFF[0][0] = kinds[0];
        PLAN_EFF[0][1] = kinds[1];
        PLAN_EFF[0][2] = kinds[2];
        let mut i = 0;
        while i < 3 {
            if ops[i] != 2 {
                PLAN_OP[0][i] = ops[i];
            }
            i += 1;
        }
    }
    symbolic_verdicts(1, nm);
    let s: St = kani::any();
    let a: Act = kani::any();
    let reduced0 = m(&store).action_reduced.load(Ordering::SeqCst);
    let mwx0 = m(&store).middleware_executed.load(Ordering::SeqCst);
    let disp: Arc<dyn Dispatcher<Act>> = Arc::new(store.clone());
    let (need, out, effects) = in_reducer(|| store.do_reduce(&a, s, disp, rt::now_model()));

    let mm = mw_model(0, nm, H_REDUCE);
    check_hooks(0, nm, H_REDUCE, &mm, s, a, rt::CTX_REDUCER);
    check_errs(0, nm, &mm.errs);
    let mut n_eff_expected = 0usize;
    if mm.done {
        // vetoed: no reducer sees the action, state unchanged
        let mut i = 0;
        while i < nr {
            chk!(12, unsafe { RED[0][i].n } == 0, "DoneAction from before_reduce keeps the action away from every reducer");
            i += 1;
        }
        chk!(12, out == s, "DoneAction from before_reduce leaves the state unchanged");
        chk!(18, m(&store).action_reduced.load(Ordering::SeqCst) == reduced0, "a vetoed action is not counted as reduced");
    } else {
        let mut prev = s;
        let mut prev_at = 0u8;
        let mut last_hook_at = 0u8;
        let mut k = 0;
        while k < nm {
            if mm.called[k] {
                last_hook_at = unsafe { MW[0][k][H_REDUCE].at };
            }
            k += 1;
        }
        let mut i = 0;
        while i < nr {
            let rec = unsafe { RED[0][i] };
            chk!(1, rec.n == 1, "every reducer of the chain sees the action exactly once");
            chk!(1, rec.st == prev && rec.act == a, "each reducer receives the state produced by the previous one (the first: the state passed in)");
            chk!(7, rec.at > prev_at && rec.at > last_hook_at, "reducers run in registration order, after the before_reduce hooks");
            chk!(7, rec.ctx == rt::CTX_REDUCER, "reducers run in the reducer context");
            prev = rec.out;
            prev_at = rec.at;
            if unsafe { PLAN_EFF[0][i] } != E_NONE {
                n_eff_expected += 1;
            }
            i += 1;
        }
        chk!(1, out == prev, "the chain's result is the state returned by the last reducer");
        let mut expect = s.val;
        let mut i = 0;
        while i < nr {
            expect = mix(expect, a, i as u8);
            i += 1;
        }
        chk!(1, out.val == expect && out.seq == s.seq.wrapping_add(1), "returned state = fold of the scripted chain over the input state");
        // need_dispatch: decided by the last reducer (mixed chains are unspecified)
        let last_op = unsafe { PLAN_OP[0][nr - 1] };
        chk!(3, need == (last_op == OP_DISPATCH), "need_dispatch is true for Dispatch and false for Keep (last reducer decides)");
        chk!(18, m(&store).action_reduced.load(Ordering::SeqCst) == reduced0 + 1, "action_reduced counts the reduced action once");
        if ops[nr - 1] != OP_DISPATCH {
            kani::cover!(!need, "COVER-OPT a Keep answer occurred");
        }
    }
    chk!(18, m(&store).middleware_executed.load(Ordering::SeqCst) == mwx0 + mm.n_called, "middleware_executed counts the hooks actually invoked");
    // effects returned = the attached ones, in reducer order
    if unsafe { X_SKIP } {
        core::mem::forget(effects);
        core::mem::forget(store);
        finish!(1, 3, 7, 11, 12, 18);
        return;
    }
    match effects {
        Some(v) => {
            chk!(11, v.len() == n_eff_expected, "every effect attached by a reducer is returned by the chain (none lost, none invented)");
            // expected kinds/arguments in reducer order (model side), then compare position-wise
            // with constant indices into the returned vector
            let mut exp_kind = [E_NONE; 3];
            let mut exp_arg = [0u8; 3];
            let mut pos = 0usize;
            let mut i = 0;
            while i < nr {
                let kind = unsafe { PLAN_EFF[0][i] };
                if !mm.done && kind != E_NONE {
                    exp_kind[pos] = kind;
                    exp_arg[pos] = unsafe { PLAN_ARG[0][i] };
                    pos += 1;
                }
                i += 1;
            }
            let n = v.len();
            let mut k = 0;
            while k < 3 {
                if k < n && k < n_eff_expected {
                    let ok = match &v[k] {
                        Effect::Action(x) => exp_kind[k] == E_ACTION && *x == exp_arg[k],
                        Effect::Task(_) => exp_kind[k] == E_TASK,
                        Effect::Thunk(_) => exp_kind[k] == E_THUNK,
                        Effect::Function(_, _) => exp_kind[k] == E_FUNCTION,
                    };
                    chk!(11, ok, "effects are returned in reducer order with their kind");
                }
                k += 1;
            }
            core::mem::forget(v);
        }
        None => {
            chk!(11, n_eff_expected == 0, "no effect list although reducers attached effects");
        }
    }
    if nm > 0 {
        kani::cover!(mm.done, "COVER-OPT before_reduce vetoed the action");
    }
    if nm > 1 {
        kani::cover!(!mm.called[nm - 1], "COVER-OPT BreakChain skipped a before_reduce hook");
    }
    core::mem::forget(store);
    finish!(1, 3, 7, 11, 12, 18);
}

pub static mut X_SKIP: bool = false;
#[inline(always)]
pub fn in_reducer<R>(f: impl FnOnce() -> R) -> R {
    rt::in_ctx(rt::CTX_REDUCER, f)
}


harness! { #[kani::unwind(6)] fn u_reduce_r2_m2() { u_reduce(2, 2, [E_NONE, E_NONE, E_NONE], [2, 2, 2]); } }
harness! { #[kani::unwind(6)] fn u_reduce_r1_m1() { u_reduce(1, 1, [E_NONE, E_NONE, E_NONE], [2, 2, 2]); } }
harness! { #[kani::unwind(6)] fn u_reduce_r3_m0() { u_reduce(3, 0, [E_NONE, E_NONE, E_NONE], [2, 2, 2]); } }
harness! { #[kani::unwind(6)] fn u_reduce_r3_m2() { u_reduce(3, 2, [E_NONE, E_NONE, E_NONE], [2, 2, 2]); } }
harness! { #[kani::unwind(6)] fn u_reduce_r3_m3() { u_reduce(3, 3, [E_NONE, E_NONE, E_NONE], [2, 2, 2]); } }
harness! { #[kani::unwind(6)] fn u_reduce_r1_m1_task() { u_reduce(1, 1, [E_TASK, E_NONE, E_NONE], [OP_DISPATCH, 2, 2]); } }
harness! { #[kani::unwind(6)] fn u_reduce_r1_m2_action_keep() { u_reduce(1, 2, [E_ACTION, E_NONE, E_NONE], [OP_KEEP, 2, 2]); } }
harness! { #[kani::unwind(6)] fn u_reduce_r1_m0_thunk() { u_reduce(1, 0, [E_THUNK, E_NONE, E_NONE], [OP_DISPATCH, 2, 2]); } }
harness! { #[kani::unwind(6)] fn u_reduce_r2_m1_eff_a() { u_reduce(2, 1, [E_TASK, E_NONE, E_NONE], [OP_DISPATCH, 2, 2]); } }
harness! { #[kani::unwind(6)] fn u_reduce_r2_m0_eff_b() { u_reduce(2, 0, [E_ACTION, E_THUNK, E_NONE], [OP_KEEP, OP_DISPATCH, 2]); } }
harness! { #[kani::unwind(6)] fn u_reduce_r3_m1_eff_c() { u_reduce(3, 1, [E_NONE, E_FUNCTION, E_ACTION], [2, OP_DISPATCH, OP_KEEP]); } }

// -----------------------------------------------------------------------------------------
// U-notify
// -----------------------------------------------------------------------------------------
fn u_notify(ns: usize, nm: usize) {
    rt::reset_all();
    script::reset();
    let store = mk_store(1, nm, 4, BackpressurePolicy::BlockOnFull, kani::any());
    add_subs(&store, ns);
    symbolic_verdicts(1, nm);
    let s: St = kani::any();
    let a: Act = kani::any();
    let sn0 = m(&store).state_notified.load(Ordering::SeqCst);
    let sub0 = m(&store).subscriber_notified.load(Ordering::SeqCst);
    let mwx0 = m(&store).middleware_executed.load(Ordering::SeqCst);
    let disp: Arc<dyn Dispatcher<Act>> = Arc::new(store.clone());
    in_reducer(|| store.do_notify(&a, &s, disp, rt::now_model()));

    let mm = mw_model(0, nm, H_DISPATCH);
    check_hooks(0, nm, H_DISPATCH, &mm, s, a, rt::CTX_REDUCER);
    check_errs(0, nm, &mm.errs);
    let mut last_hook_at = 0u8;
    let mut k = 0;
    while k < nm {
        if mm.called[k] {
            last_hook_at = unsafe { MW[0][k][H_DISPATCH].at };
        }
        k += 1;
    }
    let mut prev_at = last_hook_at;
    let mut i = 0;
    while i < ns {
        let rec = unsafe { SUB[0][i] };
        if mm.done {
            chk!(12, rec.n == 0, "DoneAction from before_dispatch suppresses the subscribers");
        } else {
            chk!(3, rec.n == 1, "each subscriber is called exactly once per notifying action");
            chk!(3, rec.st == s && rec.act == a, "subscriber receives exactly the state produced by that action, and the action");
            chk!(3, rec.at > prev_at, "subscribers are called in registration order");
            chk!(7, rec.at > last_hook_at && rec.ctx == rt::CTX_REDUCER, "subscribers run after the before_dispatch hooks, in the reducer context");
            prev_at = rec.at;
        }
        i += 1;
    }
    chk!(18, m(&store).state_notified.load(Ordering::SeqCst) == sn0 + 1, "state_notified counts the notification phase once");
    chk!(18, m(&store).subscriber_notified.load(Ordering::SeqCst) == sub0 + if mm.done { 0 } else { ns }, "subscriber_notified counts the subscribers actually called");
    chk!(18, m(&store).middleware_executed.load(Ordering::SeqCst) == mwx0 + mm.n_called, "middleware_executed counts the before_dispatch hooks actually invoked");
    kani::cover!(mm.done, "COVER-OPT before_dispatch vetoed the notification");
    core::mem::forget(store);
    finish!(3, 7, 12, 18);
}
harness! { #[kani::unwind(6)] fn u_notify_s2_m2() { u_notify(2, 2); } }
harness! { #[kani::unwind(6)] fn u_notify_s3_m0() { u_notify(3, 0); } }
harness! { #[kani::unwind(6)] fn u_notify_s2_m3() { u_notify(2, 3); } }
harness! { #[kani::unwind(6)] fn u_notify_s1_m1() { u_notify(1, 1); } }
harness! { #[kani::unwind(6)] fn u_notify_s3_m3() { u_notify(3, 3); } }

// -----------------------------------------------------------------------------------------
// U-effect
// -----------------------------------------------------------------------------------------
/// (only middleware 0 removes: whether a later one runs depends on symbolic BreakChain verdicts,
/// which would make the vector length symbolic)
/// effects of (concrete) kinds k0,k1 (E_NONE = absent); middleware i removes the positions in
/// masks[i] (concrete); verdicts, state and action are symbolic
fn u_effect(k0: u8, k1: u8, nm: usize, masks: [u8; 3], verdicts: [u8; 3]) {
    rt::reset_all();
    script::reset();
    let store = mk_store(1, nm, 4, BackpressurePolicy::BlockOnFull, kani::any());
    symbolic_verdicts(1, nm);
    // verdicts[i] == 9: symbolic; otherwise the before_effect verdict of middleware i is fixed
    // (robustness: code whose handling of the effect list depends on the verdict stays
    // tractable when the verdict is concrete)
    let mut i = 0;
    while i < nm {
        if verdicts[i] != 9 {
            unsafe {
                VERDICT[0][i][H_EFFECT] = verdicts[i];
            }
        }
        i += 1;
    }
    let mut i = 0;
    while i < nm {
        // concrete: a symbolic removal makes the effect vector's length symbolic
        unsafe {
            MW_REMOVE[0][i] = masks[i];
        }
        i += 1;
    }
    let s: St = kani::any();
    let a: Act = kani::any();
    let follow: Act = kani::any();
    let mut effects: Vec<Effect<Act>> = Vec::new();
    let mut ids = [99usize; 2];
    let mut n0 = 0usize;
    if k0 != E_NONE {
        effects.push(make_effect(k0, 0, follow | 1).unwrap());
        ids[n0] = 0;
        n0 += 1;
    }
    if k1 != E_NONE {
        effects.push(make_effect(k1, 1, follow | 1).unwrap());
        ids[n0] = 1;
        n0 += 1;
    }
    let issued0 = m(&store).effect_issued.load(Ordering::SeqCst);
    let mwx0 = m(&store).middleware_executed.load(Ordering::SeqCst);
    let tasks0 = rusty_pool::ghost::tasks();
    let q0 = crossbeam::channel::ghost(0);
    let disp: Arc<dyn Dispatcher<Act>> = Arc::new(store.clone());
    in_reducer(|| store.do_effect(&a, &s, &mut effects, disp));
    core::mem::forget(effects);

    // model: which of the original effects survive the middlewares
    let mm = mw_model(0, nm, H_EFFECT);
    check_hooks(0, nm, H_EFFECT, &mm, s, a, rt::CTX_REDUCER);
    check_errs(0, nm, &mm.errs);
    let mut alive = [0usize; 2];
    let mut n_alive = n0;
    alive[0] = ids[0];
    alive[1] = ids[1];
    let mut k = 0;
    while k < nm {
        if mm.called[k] {
            let mask = unsafe { MW_REMOVE[0][k] };
            chk!(12, unsafe { MW[0][k][H_EFFECT].aux } as usize == n_alive, "before_effect sees the effects left by the earlier middlewares");
            if mask & 2 != 0 && n_alive > 1 {
                n_alive = 1;
            }
            if mask & 1 != 0 && n_alive > 0 {
                alive[0] = alive[1];
                n_alive -= 1;
            }
        }
        k += 1;
    }
    let tasks1 = rusty_pool::ghost::tasks();
    chk!(11, tasks1 == tasks0 + n_alive, "one pool submission per effect the middlewares left");
    chk!(12, tasks1 == tasks0 + n_alive, "effects removed in before_effect are not submitted, the ones left are");
    chk!(11, unsafe { EFF_RUN[0] == 0 && EFF_RUN[1] == 0 }, "no effect body runs inline in the reducer context");
    chk!(18, m(&store).effect_issued.load(Ordering::SeqCst) == issued0 + n0, "effect_issued counts the effects the reducers returned");
    chk!(18, m(&store).middleware_executed.load(Ordering::SeqCst) == mwx0 + mm.n_called, "middleware_executed counts the before_effect hooks actually invoked");
    // run the pool: every surviving effect exactly once, on a worker
    let ran = rt::run_pending(4);
    chk!(11, ran == n_alive, "the pool holds exactly the submitted effects");
    let q1 = crossbeam::channel::ghost(0);
    let mut follow_ups = 0usize;
    let mut e = 0;
    while e < 2 {
        let kind = if e == 0 { k0 } else { k1 };
        let is_alive = (n_alive > 0 && alive[0] == e) || (n_alive > 1 && alive[1] == e);
        if kind != E_NONE {
            if kind == E_ACTION {
                if is_alive {
                    follow_ups += 1;
                }
            } else if is_alive {
                chk!(11, unsafe { EFF_RUN[e] } == 1, "every effect left by the middlewares is executed exactly once");
                chk!(11, unsafe { EFF_CTX[e] } == rt::CTX_POOL, "effects run on a worker, not in the reducer context");
                if kind == E_THUNK {
                    chk!(11, unsafe { EFF_DISPATCH[e] } == 1, "a thunk receives a working dispatcher");
                    follow_ups += 1;
                }
            } else {
                chk!(12, unsafe { EFF_RUN[e] } == 0, "an effect removed by a middleware is never run");
            }
        }
        e += 1;
    }
    chk!(11, q1.len == q0.len + follow_ups, "Effect::Action / a thunk's dispatcher enqueue their action on THIS store's dispatch queue, once each");
    kani::cover!(n_alive < n0, "COVER-OPT a middleware removed an effect");
    core::mem::forget(store);
    finish!(7, 11, 12, 18);
}

harness! { #[kani::unwind(6)] fn u_effect_task_thunk_m1() { u_effect(E_TASK, E_THUNK, 1, [0, 0, 0], [9, 9, 9]); } }
harness! { #[kani::unwind(6)] fn u_effect_task_thunk_m1_rm0() { u_effect(E_TASK, E_THUNK, 1, [1, 0, 0], [9, 9, 9]); } }
harness! { #[kani::unwind(6)] fn u_effect_function_action_m1_rm1() { u_effect(E_FUNCTION, E_ACTION, 1, [2, 0, 0], [9, 9, 9]); } }
harness! { #[kani::unwind(6)] fn u_effect_action_task_m0() { u_effect(E_ACTION, E_TASK, 0, [0, 0, 0], [9, 9, 9]); } }
harness! { #[kani::unwind(6)] fn u_effect_thunk_m2_rm() { u_effect(E_THUNK, E_NONE, 2, [1, 0, 0], [9, 9, 9]); } }
harness! { #[kani::unwind(6)] fn u_effect_task_task_m2_rm() { u_effect(E_TASK, E_TASK, 2, [1, 0, 0], [9, 9, 9]); } }
harness! { #[kani::unwind(6)] fn u_effect_function_thunk_m3() { u_effect(E_FUNCTION, E_THUNK, 3, [2, 0, 0], [9, 9, 9]); } }
harness! { #[kani::unwind(6)] fn u_effect_thunk_function_m2_all() { u_effect(E_THUNK, E_FUNCTION, 2, [3, 0, 0], [9, 9, 9]); } }

harness! { #[kani::unwind(6)] fn u_effect_task_thunk_m1_done() { u_effect(E_TASK, E_THUNK, 1, [0, 0, 0], [V_DONE, 9, 9]); } }
harness! { #[kani::unwind(6)] fn u_effect_task_thunk_m1_break() { u_effect(E_TASK, E_THUNK, 1, [0, 0, 0], [V_BREAK, 9, 9]); } }
harness! { #[kani::unwind(6)] fn u_effect_function_action_m1_err() { u_effect(E_FUNCTION, E_ACTION, 1, [0, 0, 0], [V_ERR, 9, 9]); } }
harness! { #[kani::unwind(6)] fn u_effect_task_task_m2_done_cont() { u_effect(E_TASK, E_TASK, 2, [1, 0, 0], [V_DONE, V_CONTINUE, 9]); } }
harness! { #[kani::unwind(6)] fn u_effect_thunk_function_m2_cont_done() { u_effect(E_THUNK, E_FUNCTION, 2, [0, 0, 0], [V_CONTINUE, V_DONE, 9]); } }

/// vacuity twin: wrong oracles (Done does not veto; subscribers called twice) must be refuted
harness! { #[kani::unwind(6)] fn twin_u_phase() {
    rt::reset_all();
    script::reset();
    let store = mk_store(1, 1, 4, BackpressurePolicy::BlockOnFull, kani::any());
    add_subs(&store, 1);
    symbolic_verdicts(1, 1);
    let s: St = kani::any();
    let a: Act = kani::any();
    let d1: Arc<dyn Dispatcher<Act>> = Arc::new(store.clone());
    let (_n, out, eff) = in_reducer(|| store.do_reduce(&a, s, d1, rt::now_model()));
    core::mem::forget(eff);
    chk!(12, unsafe { RED[0][0].n } == 1, "TWIN (wrong on purpose): reducer always called");
    chk!(1, out == s, "TWIN (wrong on purpose): state never changes");
    chk!(7, unsafe { MW[0][0][H_REDUCE].ctx } == rt::CTX_POOL, "TWIN (wrong on purpose)");
    chk!(18, m(&store).action_reduced.load(Ordering::SeqCst) == 0, "TWIN (wrong on purpose)");
    let d2: Arc<dyn Dispatcher<Act>> = Arc::new(store.clone());
    in_reducer(|| store.do_notify(&a, &s, d2, rt::now_model()));
    chk!(3, unsafe { SUB[0][0].n } == 2, "TWIN (wrong on purpose): subscriber called twice");
    chk!(11, rusty_pool::ghost::tasks() == 7, "TWIN (wrong on purpose)");
    core::mem::forget(store);
    finish!(1, 3, 7, 11, 12, 18);
} }

// -----------------------------------------------------------------------------------------
// U-dispatch: the dispatch entry points against a full queue (C02 / C05 / C06 / C18)
// -----------------------------------------------------------------------------------------
static mut DISP_TAKEN: u8 = 0;
static mut DISP_STORE: Option<Arc<Store>> = None;
/// a BlockOnFull dispatch waits for room: the reducer takes one action (modelled by the
/// queue's receiving side being drained through the store's own loop is not needed here:
/// the test queue is drained by hand)
fn disp_block(kind: u8, obj: usize) {
    unsafe {
        if kind == crossbeam::hooks::SEND && obj == 0 && DISP_TAKEN == 0 {
            DISP_TAKEN = 1;
            // the reducer loop would `recv` here; take the head the same way
            crossbeam::channel::model_take_head::<crate::store_impl::ActionOp<Act>>(0);
            return;
        }
    }
    panic!("VERIF-DEADLOCK: blocked with nothing to unblock");
}

fn u_dispatch(policy: u8, cap: usize, entry: u8) {
    rt::reset_all();
    script::reset();
    crossbeam::hooks::set_native(None, Some(disp_block));
    unsafe {
        DISP_TAKEN = 0;
    }
    let pol = match policy {
        0 => BackpressurePolicy::BlockOnFull,
        1 => BackpressurePolicy::DropOldest,
        _ => BackpressurePolicy::DropLatest,
    };
    let store = mk_store(1, 0, cap, pol, kani::any());
    // fill the queue (the loop has not been scheduled yet)
    let mut i = 0;
    while i < cap {
        let r = crate::StoreImpl::dispatch(&store, kani::any());
        chk!(5, r.is_ok(), "dispatch with room is accepted");
        core::mem::forget(r);
        i += 1;
    }
    let g0 = crossbeam::channel::ghost(0);
    let tasks0 = rusty_pool::ghost::tasks();
    let d0 = store.metrics.action_dropped.load(Ordering::SeqCst);
    chk!(5, g0.len == cap, "queue filled to its capacity");
    let x: Act = kani::any();
    let r = match entry {
        0 => crate::StoreImpl::dispatch(&store, x),
        1 => Dispatcher::dispatch(&store, x),
        _ => <Store as crate::Store<St, Act>>::dispatch(&store, x),
    };
    let g1 = crossbeam::channel::ghost(0);
    let d1 = store.metrics.action_dropped.load(Ordering::SeqCst);
    let _ = tasks0;
    match policy {
        0 => {
            chk!(5, r.is_ok() && unsafe { DISP_TAKEN } == 1, "BlockOnFull: the caller waits until the reducer makes room, then the action is accepted");
            chk!(4, !r.is_ok() || (g1.len == cap && g1.n_taken == g0.n_taken + 1), "a dispatch that returned Ok under the blocking policy has put its action into the queue (it will be processed before stop() returns)");
            chk!(5, g1.len == cap && g1.max_len <= cap && d1 == d0, "BlockOnFull: nothing is discarded, the queue never exceeds its capacity");
            chk!(2, g1.len == cap && g1.n_taken == g0.n_taken + 1, "when dispatch returns Ok the action IS in the queue (real-time order): one slot was freed, and it is occupied again");
        }
        1 => {
            chk!(6, r.is_ok() && g1.len == cap && d1 == d0 + 1 && g1.n_send_waited == g0.n_send_waited && unsafe { DISP_TAKEN } == 0, "DropOldest: never waits, evicts and counts the oldest action, admits the new one");
        }
        _ => {
            chk!(6, g1.len == cap && d1 == d0 + 1 && g1.n_taken == g0.n_taken && g1.n_send_waited == g0.n_send_waited && unsafe { DISP_TAKEN } == 0, "DropLatest: never waits, discards and counts the new action, queue untouched");
            if entry == 1 {
                chk!(6, r.is_err(), "a DropLatest dispatch through the Dispatcher interface returns Err exactly for the discarded action");
            }
        }
    }
    chk!(18, d1 - d0 == if policy == 0 { 0 } else { 1 }, "action_dropped counts exactly the discarded action");
    core::mem::forget(r);
    core::mem::forget(store);
    finish!(2, 4, 5, 6, 18);
}
macro_rules! disp_harness {
    ($($name:ident = ($p:expr, $c:expr, $e:expr);)+) => { $(
        harness! {
            #[kani::stub(crossbeam::hooks::block, disp_block)]
            #[kani::unwind(6)]
            fn $name() { u_dispatch($p, $c, $e); }
        }
    )+ };
}
disp_harness! {
    u_dispatch_block_cap1_inherent = (0, 1, 0);
    u_dispatch_block_cap2_dispatcher = (0, 2, 1);
    u_dispatch_block_cap1_trait = (0, 1, 2);
    u_dispatch_block_cap3_inherent = (0, 3, 0);
    u_dispatch_oldest_cap1_dispatcher = (1, 1, 1);
    u_dispatch_oldest_cap2_inherent = (1, 2, 0);
    u_dispatch_latest_cap1_dispatcher = (2, 1, 1);
    u_dispatch_latest_cap2_dispatcher = (2, 2, 1);
    u_dispatch_latest_cap1_inherent = (2, 1, 0);
}

// -----------------------------------------------------------------------------------------
// U-effect-full (C13 / C11 / C05): the effect phase against a FULL BlockOnFull dispatch queue.
// While the reducer context is inside do_effect nobody takes from the dispatch queue (it is
// the only consumer), so a wait of the reducer context on that queue can never end: the
// block hook reports it as a deadlock.  A pool worker that waits is served by the reducer
// once it is back in its loop (one take per wait).
// -----------------------------------------------------------------------------------------
static mut EFULL_SERVED: u8 = 0;
fn efull_block(kind: u8, obj: usize) {
    unsafe {
        if kind == crossbeam::hooks::SEND && obj == 0 && rt::ctx() == rt::CTX_POOL && EFULL_SERVED < 2 {
            EFULL_SERVED += 1;
            crossbeam::channel::model_take_head::<crate::store_impl::ActionOp<Act>>(0);
            return;
        }
    }
    panic!("VERIF-DEADLOCK: the reducer context waits for room in its own full dispatch queue (it is the only consumer)");
}

fn u_effect_full(k0: u8, k1: u8, cap: usize) {
    rt::reset_all();
    script::reset();
    crossbeam::hooks::set_native(None, Some(efull_block));
    unsafe {
        EFULL_SERVED = 0;
    }
    let store = mk_store(1, 0, cap, BackpressurePolicy::BlockOnFull, kani::any());
    let mut i = 0;
    while i < cap {
        let r = crate::StoreImpl::dispatch(&store, kani::any());
        core::mem::forget(r);
        i += 1;
    }
    let s: St = kani::any();
    let a: Act = kani::any();
    let follow: Act = kani::any();
    let mut effects: Vec<Effect<Act>> = Vec::new();
    let mut n0 = 0usize;
    let mut follow_ups = 0usize;
    if k0 != E_NONE {
        effects.push(make_effect(k0, 0, follow | 1).unwrap());
        n0 += 1;
        if k0 == E_ACTION || k0 == E_THUNK {
            follow_ups += 1;
        }
    }
    if k1 != E_NONE {
        effects.push(make_effect(k1, 1, follow | 1).unwrap());
        n0 += 1;
        if k1 == E_ACTION || k1 == E_THUNK {
            follow_ups += 1;
        }
    }
    let g0 = crossbeam::channel::ghost(0);
    chk!(5, g0.len == cap, "queue filled to its capacity");
    let tasks0 = rusty_pool::ghost::tasks();
    let disp: Arc<dyn Dispatcher<Act>> = Arc::new(store.clone());
    in_reducer(|| store.do_effect(&a, &s, &mut effects, disp));
    core::mem::forget(effects);
    let g1 = crossbeam::channel::ghost(0);
    chk!(13, g1.n_send_waited == g0.n_send_waited, "the effect phase returns without the reducer context waiting on its own queue");
    chk!(11, g1.len == g0.len && g1.n_taken == g0.n_taken, "the effect phase itself enqueues nothing: follow-up actions are enqueued by workers");
    chk!(11, rusty_pool::ghost::tasks() == tasks0 + n0, "one pool submission per effect, also with a full queue");
    chk!(11, unsafe { EFF_RUN[0] == 0 && EFF_RUN[1] == 0 }, "no effect body runs inline in the reducer context");
    // workers run: each follow-up dispatch waits (queue full) and is served by one reducer take
    let ran = rt::run_pending(4);
    let g2 = crossbeam::channel::ghost(0);
    chk!(11, ran == n0, "the pool holds exactly the submitted effects");
    chk!(5, g2.max_len <= cap && g2.len == cap, "BlockOnFull: the queue never exceeds its capacity, follow-ups take exactly the freed slots");
    chk!(5, g2.n_taken == g1.n_taken + follow_ups && unsafe { EFULL_SERVED } as usize == follow_ups, "every follow-up action waited for room and was then accepted (lossless), once each");
    chk!(13, true, "every worker returned");
    kani::cover!(follow_ups > 0, "COVER-OPT a follow-up action waited for room");
    core::mem::forget(store);
    finish!(5, 11, 13);
}
/// the same, with a PRODUCER suspended inside a BlockOnFull `dispatch` on the full queue: it holds
/// the `dispatch_tx` lock (StoreImpl::dispatch sends under that lock) and can only go on after the
/// reducer has taken an item.  A reducer-side phase that waits for that lock closes a cycle
/// (producer waits for the reducer, the reducer for the producer): reported by the Mutex::lock model.
fn u_effect_full_producer_blocked(k0: u8, cap: usize) {
    rt::reset_all();
    script::reset();
    crossbeam::hooks::set_native(None, Some(efull_block));
    unsafe {
        EFULL_SERVED = 0;
    }
    let store = mk_store(1, 0, cap, BackpressurePolicy::BlockOnFull, kani::any());
    let mut i = 0;
    while i < cap {
        let r = crate::StoreImpl::dispatch(&store, kani::any());
        core::mem::forget(r);
        i += 1;
    }
    // the suspended producer: inside dispatch(), holding the sender lock, waiting for room
    let held = match store.dispatch_tx.try_lock() {
        Ok(g) => g,
        Err(_) => panic!("VERIF-MODEL: sender lock not free"),
    };
    let s: St = kani::any();
    let a: Act = kani::any();
    let follow: Act = kani::any();
    let mut effects: Vec<Effect<Act>> = Vec::new();
    effects.push(make_effect(k0, 0, follow | 1).unwrap());
    let g0 = crossbeam::channel::ghost(0);
    let tasks0 = rusty_pool::ghost::tasks();
    let disp: Arc<dyn Dispatcher<Act>> = Arc::new(store.clone());
    in_reducer(|| store.do_effect(&a, &s, &mut effects, disp));
    core::mem::forget(effects);
    let g1 = crossbeam::channel::ghost(0);
    chk!(13, g1.n_send_waited == g0.n_send_waited, "the effect phase returns although a producer is blocked in dispatch() on the full queue: the reducer context waits neither for the queue nor for the sender lock");
    chk!(5, g1.len == cap && g1.max_len <= cap, "the blocked producer's slot is not taken by the effect phase");
    chk!(11, rusty_pool::ghost::tasks() == tasks0 + 1, "the effect is submitted to the pool");
    chk!(11, unsafe { EFF_RUN[0] } == 0, "no effect body runs inline in the reducer context");
    core::mem::forget(held);
    core::mem::forget(store);
    finish!(5, 11, 13);
}
harness! {
    #[kani::stub(crossbeam::hooks::block, efull_block)]
    #[kani::unwind(6)]
    fn u_effect_full_producer_blocked_action_cap1() { u_effect_full_producer_blocked(E_ACTION, 1); }
}
harness! {
    #[kani::stub(crossbeam::hooks::block, efull_block)]
    #[kani::unwind(6)]
    fn u_effect_full_producer_blocked_thunk_cap2() { u_effect_full_producer_blocked(E_THUNK, 2); }
}
macro_rules! efull_harness {
    ($($name:ident = ($a:expr, $b:expr, $c:expr);)+) => { $(
        harness! {
            #[kani::stub(crossbeam::hooks::block, efull_block)]
            #[kani::unwind(6)]
            fn $name() { u_effect_full($a, $b, $c); }
        }
    )+ };
}
efull_harness! {
    u_effect_full_action_cap1 = (E_ACTION, E_NONE, 1);
    u_effect_full_action_thunk_cap1 = (E_ACTION, E_THUNK, 1);
    u_effect_full_thunk_action_cap2 = (E_THUNK, E_ACTION, 2);
    u_effect_full_task_action_cap2 = (E_TASK, E_ACTION, 2);
}

// -----------------------------------------------------------------------------------------
// S-late (C07): a middleware / reducer registered by another thread while the reducer
// context is inside a callback of the current action must be part of the NEXT action
// -----------------------------------------------------------------------------------------
static mut LATE_DONE: u8 = 0;
fn late_yield(kind: u8, obj: usize) {
    if rt::at_placement(kind, obj) {
        unsafe {
            let s = match DISP_STORE.as_ref() {
                Some(s) => s,
                None => return,
            };
            rt::IN_UNIT = true;
            // add_middleware / add_reducer start by taking the list's lock: where the suspended
            // reducer context holds it (while it iterates the list) the call waits - skipped here
            if LATE_WHAT == 2 {
                // a reader thread: get_state() while the reducer context is inside the callback
                LATE_READ = rt::in_ctx(rt::CTX_CLIENT, || s.get_state());
                LATE_DONE = 1;
            } else if LATE_WHAT == 0 {
                if s.reducers.try_lock().is_ok() {
                    rt::in_ctx(rt::CTX_CLIENT, || s.add_reducer(Box::new(ScriptReducer { idx: 2 })));
                    LATE_DONE = 1;
                }
            } else {
                // the middleware list is private: enabledness is decided by the lock stub
                // (`assume(false)` prunes the placement when the list is locked)
                rt::in_ctx(rt::CTX_CLIENT, || s.add_middleware(Arc::new(ScriptMiddleware { idx: 2 })));
                LATE_DONE = 1;
            }
            rt::IN_UNIT = false;
        }
    }
}
static mut LATE_WHAT: u8 = 0;
static mut LATE_READ: St = St { val: 0, seq: 0 };

/// S-read-mid (C08): a reader's get_state() placed INSIDE a callback of the reduce phase (real
/// do_reduce, 2 reducers, 2 middlewares): no action has been reduced completely yet, so the
/// reader must see the state the store held before the phase - never the output of a part
/// of the reducer chain.
fn s_read_mid(kind: u8, obj: usize) {
    rt::reset_all();
    script::reset();
    crossbeam::hooks::set_native(Some(late_yield), None);
    let init: St = kani::any();
    let store = mk_store(2, 2, 4, BackpressurePolicy::BlockOnFull, init);
    unsafe {
        core::ptr::write(&mut DISP_STORE, Some(store.clone()));
        LATE_DONE = 0;
        LATE_WHAT = 2;
        LAST_REDUCER = 1;
        CUR_MODE = 0;
        CUR = 0;
    }
    rt::arm(kind, obj, 0);
    let a0: Act = kani::any();
    let d0: Arc<dyn Dispatcher<Act>> = Arc::new(store.clone());
    // the loop hands do_reduce a copy of the published state
    let (_n, out0, e0) = in_reducer(|| store.do_reduce(&a0, init, d0, rt::now_model()));
    core::mem::forget(e0);
    unsafe {
        rt::PLACE_ARMED = false;
    }
    let done = unsafe { LATE_DONE } == 1;
    if done {
        chk!(8, unsafe { LATE_READ } == init, "get_state() during the reduce phase returns the state left by the last completely reduced action, never the output of a part of the reducer chain");
    }
    kani::cover!(done && out0 != init, "COVER the reader ran inside the callback and the action changes the state");
    unsafe {
        core::ptr::write(&mut DISP_STORE, None);
    }
    core::mem::forget(store);
    finish!(8);
}
macro_rules! read_mid_harness {
    ($($name:ident = ($k:expr, $o:expr);)+) => { $(
        harness! {
            #[kani::stub(crossbeam::hooks::yield_point, late_yield)]
            #[kani::unwind(6)]
            fn $name() { s_read_mid($k, $o); }
        }
    )+ };
}
read_mid_harness! {
    s_read_mid_in_reducer1 = (rt::P_REDUCE, 1);
    s_read_mid_in_reducer0 = (rt::P_REDUCE, 0);
    s_read_mid_in_before_reduce1 = (rt::P_BEFORE_REDUCE, 1);
}

fn s_late(what: u8, kind: u8, obj: usize) {
    rt::reset_all();
    script::reset();
    crossbeam::hooks::set_native(Some(late_yield), None);
    let store = mk_store(2, 2, 4, BackpressurePolicy::BlockOnFull, kani::any());
    unsafe {
        core::ptr::write(&mut DISP_STORE, Some(store.clone()));
        LATE_DONE = 0;
        LATE_WHAT = what;
        LAST_REDUCER = 1;
    }
    // action 0: the registration lands inside one of its callbacks
    unsafe {
        CUR_MODE = 0;
        CUR = 0;
    }
    rt::arm(kind, obj, 0);
    let s0: St = kani::any();
    let a0: Act = kani::any();
    let d0: Arc<dyn Dispatcher<Act>> = Arc::new(store.clone());
    let (_n, out0, e0) = in_reducer(|| store.do_reduce(&a0, s0, d0, rt::now_model()));
    core::mem::forget(e0);
    unsafe {
        rt::PLACE_ARMED = false;
    }
    let done = unsafe { LATE_DONE } == 1;
    // action 1 is dispatched after the registration returned
    unsafe {
        CUR = 1;
    }
    let a1: Act = kani::any();
    let d1: Arc<dyn Dispatcher<Act>> = Arc::new(store.clone());
    let (_n1, _out1, e1) = in_reducer(|| store.do_reduce(&a1, out0, d1, rt::now_model()));
    core::mem::forget(e1);
    // the two original callbacks of each kind always run for action 1
    chk!(7, unsafe { RED[1][0].n == 1 && RED[1][1].n == 1 && MW[1][0][H_REDUCE].n == 1 && MW[1][1][H_REDUCE].n == 1 }, "components registered at build time are in every action's pipeline");
    if done {
        if what == 0 {
            chk!(7, unsafe { RED[1][2].n } == 1, "a reducer registered (from any thread) before an action is dispatched is never left out of that action's pipeline");
            chk!(7, unsafe { RED[1][2].at > RED[1][1].at }, "a late reducer runs after the earlier ones (registration order)");
        } else {
            chk!(7, unsafe { MW[1][2][H_REDUCE].n } == 1, "a middleware registered (from any thread) before an action is dispatched is never left out of that action's pipeline");
            chk!(7, unsafe { MW[1][2][H_REDUCE].at > MW[1][1][H_REDUCE].at }, "a late middleware runs after the earlier ones (registration order)");
        }
    }
    kani::cover!(done, "COVER-OPT the registration was enabled at this placement");
    unsafe {
        core::ptr::write(&mut DISP_STORE, None);
    }
    core::mem::forget(store);
    finish!(7);
}
macro_rules! late_harness {
    ($($name:ident = ($w:expr, $k:expr, $o:expr);)+) => { $(
        harness! {
            #[kani::stub(crossbeam::hooks::yield_point, late_yield)]
            #[kani::unwind(6)]
            fn $name() { s_late($w, $k, $o); }
        }
    )+ };
}
late_harness! {
    s_late_mw_in_before_reduce0 = (1, rt::P_BEFORE_REDUCE, 0);
    s_late_mw_in_before_reduce1 = (1, rt::P_BEFORE_REDUCE, 1);
    s_late_mw_in_reducer0 = (1, rt::P_REDUCE, 0);
    s_late_reducer_in_before_reduce1 = (0, rt::P_BEFORE_REDUCE, 1);
    s_late_reducer_in_reducer1 = (0, rt::P_REDUCE, 1);
}

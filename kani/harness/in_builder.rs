//! C17 — in-module harnesses for `StoreBuilder` (pulled into `builder.rs` by hook H3, so
//! that the builder's private fields can be set and read).
//!
//! * `step_*`: ONE setter applied to an ARBITRARY builder record (symbolic scalar fields,
//!   container shapes 0/1/2 elements, empty and non-empty name): every field afterwards
//!   is what the record-of-last-settings model says.  Because the pre-state is arbitrary,
//!   one step covers call histories of any length (inductive argument, DESIGN.md §5 C17).
//! * `build_validate_*`: `build()` on an arbitrary record is `Err` exactly when capacity = 0,
//!   the name is empty, or there is no reducer and `without_reducer` is false.
//! * `build_wiring_*`: on the Ok path the running store has exactly the record's capacity,
//!   policy, reducers and middlewares (behavioural probes).
#![allow(static_mut_refs)]
#![allow(dead_code)]

use super::StoreBuilder;
use crate::verif_kani::rt;
use crate::verif_kani::script::{self, Act, ScriptMiddleware, ScriptReducer, St};
use crate::verif_kani::{chk, finish, harness};
use crate::{BackpressurePolicy, Dispatcher, Middleware, Reducer};
use std::sync::Arc;

fn red(i: u8) -> Box<dyn Reducer<St, Act> + Send + Sync> {
    Box::new(ScriptReducer { idx: i })
}
fn mw(i: u8) -> Arc<dyn Middleware<St, Act> + Send + Sync> {
    Arc::new(ScriptMiddleware { idx: i })
}
fn pol(p: u8) -> BackpressurePolicy {
    match p {
        0 => BackpressurePolicy::BlockOnFull,
        1 => BackpressurePolicy::DropOldest,
        _ => BackpressurePolicy::DropLatest,
    }
}
fn pol_id(p: &BackpressurePolicy) -> u8 {
    match p {
        BackpressurePolicy::BlockOnFull => 0,
        BackpressurePolicy::DropOldest => 1,
        BackpressurePolicy::DropLatest => 2,
    }
}
fn rptr(b: &Box<dyn Reducer<St, Act> + Send + Sync>) -> usize {
    (&**b) as *const (dyn Reducer<St, Act> + Send + Sync) as *const () as usize
}
fn mptr(a: &Arc<dyn Middleware<St, Act> + Send + Sync>) -> usize {
    Arc::as_ptr(a) as *const () as usize
}

/// observable content of a builder record
#[derive(Clone, Copy)]
struct Snap {
    name_len: usize,
    n_red: usize,
    red: [usize; 4],
    without: bool,
    cap: usize,
    policy: u8,
    n_mw: usize,
    mws: [usize; 4],
    state: St,
}

fn snap(b: &StoreBuilder<St, Act>) -> Snap {
    let mut s = Snap {
        name_len: b.name.len(),
        n_red: b.reducers.len(),
        red: [0; 4],
        without: b.without_reducer,
        cap: b.capacity,
        policy: pol_id(&b.policy),
        n_mw: b.middlewares.len(),
        mws: [0; 4],
        state: b.state,
    };
    let mut i = 0;
    while i < 4 {
        if i < b.reducers.len() {
            s.red[i] = rptr(&b.reducers[i]);
        }
        if i < b.middlewares.len() {
            s.mws[i] = mptr(&b.middlewares[i]);
        }
        i += 1;
    }
    s
}

/// an arbitrary builder record of the given (concrete) shape; scalars are symbolic
fn arbitrary(name_empty: bool, nr: usize, nm: usize) -> StoreBuilder<St, Act> {
    let mut b = StoreBuilder::<St, Act>::new(kani::any());
    core::mem::forget(core::mem::replace(
        &mut b.name,
        if name_empty { String::new() } else { String::from("ab") },
    ));
    let mut i = 0;
    while i < nr {
        b.reducers.push(red(i as u8));
        i += 1;
    }
    let mut i = 0;
    while i < nm {
        b.middlewares.push(mw(i as u8));
        i += 1;
    }
    b.without_reducer = kani::any();
    b.capacity = kani::any();
    let p: u8 = kani::any();
    kani::assume(p <= 2);
    b.policy = pol(p);
    b
}

pub const NAME_EMPTY: u8 = 0;
pub const NAME_SET: u8 = 1;
pub const WITH_REDUCER: u8 = 2;
pub const WITH_REDUCERS_0: u8 = 3;
pub const WITH_REDUCERS_2: u8 = 4;
pub const ADD_REDUCER: u8 = 5;
pub const WITHOUT_REDUCER: u8 = 6;
pub const WITH_CAPACITY: u8 = 7;
pub const WITH_POLICY: u8 = 8;
pub const WITH_MIDDLEWARE: u8 = 9;
pub const WITH_MIDDLEWARES_0: u8 = 10;
pub const WITH_MIDDLEWARES_2: u8 = 11;
pub const ADD_MIDDLEWARE: u8 = 12;

fn same_reducers(a: &Snap, b: &Snap) -> bool {
    a.n_red == b.n_red && a.red[0] == b.red[0] && a.red[1] == b.red[1] && a.red[2] == b.red[2]
}
fn same_mws(a: &Snap, b: &Snap) -> bool {
    a.n_mw == b.n_mw && a.mws[0] == b.mws[0] && a.mws[1] == b.mws[1] && a.mws[2] == b.mws[2]
}

/// one setter from an arbitrary record of shape (name_empty, nr, nm)
fn step(op: u8, name_empty: bool, nr: usize, nm: usize) {
    let b = arbitrary(name_empty, nr, nm);
    let pre = snap(&b);
    // expected record
    let mut exp = pre;
    let mut new_r = [0usize; 2];
    let mut new_m = [0usize; 2];
    let b = match op {
        NAME_EMPTY => {
            exp.name_len = 0;
            b.with_name(String::new())
        }
        NAME_SET => {
            exp.name_len = 1;
            b.with_name(String::from("x"))
        }
        WITH_REDUCER => {
            let r = red(7);
            new_r[0] = rptr(&r);
            exp.n_red = 1;
            exp.red = [new_r[0], 0, 0, 0];
            exp.without = false;
            b.with_reducer(r)
        }
        WITH_REDUCERS_0 => {
            exp.n_red = 0;
            exp.red = [0; 4];
            exp.without = false;
            b.with_reducers(vec![])
        }
        WITH_REDUCERS_2 => {
            let r0 = red(7);
            let r1 = red(8);
            new_r = [rptr(&r0), rptr(&r1)];
            exp.n_red = 2;
            exp.red = [new_r[0], new_r[1], 0, 0];
            exp.without = false;
            b.with_reducers(vec![r0, r1])
        }
        ADD_REDUCER => {
            let r = red(7);
            new_r[0] = rptr(&r);
            exp.red[exp.n_red] = new_r[0];
            exp.n_red += 1;
            b.add_reducer(r)
        }
        WITHOUT_REDUCER => {
            exp.without = true;
            b.without_reducer()
        }
        WITH_CAPACITY => {
            let c: usize = kani::any();
            exp.cap = c;
            b.with_capacity(c)
        }
        WITH_POLICY => {
            let p: u8 = kani::any();
            kani::assume(p <= 2);
            exp.policy = p;
            b.with_policy(pol(p))
        }
        WITH_MIDDLEWARE => {
            let x = mw(7);
            new_m[0] = mptr(&x);
            exp.n_mw = 1;
            exp.mws = [new_m[0], 0, 0, 0];
            b.with_middleware(x)
        }
        WITH_MIDDLEWARES_0 => {
            exp.n_mw = 0;
            exp.mws = [0; 4];
            b.with_middlewares(vec![])
        }
        WITH_MIDDLEWARES_2 => {
            let x0 = mw(7);
            let x1 = mw(8);
            new_m = [mptr(&x0), mptr(&x1)];
            exp.n_mw = 2;
            exp.mws = [new_m[0], new_m[1], 0, 0];
            b.with_middlewares(vec![x0, x1])
        }
        _ => {
            let x = mw(7);
            new_m[0] = mptr(&x);
            exp.mws[exp.n_mw] = new_m[0];
            exp.n_mw += 1;
            b.add_middleware(x)
        }
    };
    let post = snap(&b);
    chk!(17, post.name_len == exp.name_len, "setter leaves/sets the name as the model says");
    chk!(17, same_reducers(&post, &exp), "setter leaves/sets the reducer list as the model says (with_* replaces, add_* appends)");
    chk!(17, post.without == exp.without, "setter leaves/sets the without_reducer flag as the model says");
    chk!(17, post.cap == exp.cap, "setter leaves/sets the capacity as the model says");
    chk!(17, post.policy == exp.policy, "setter leaves/sets the policy as the model says");
    chk!(17, same_mws(&post, &exp), "setter leaves/sets the middleware list as the model says (with_* replaces, add_* appends)");
    chk!(17, post.state == exp.state, "setter leaves the initial state alone");
    core::mem::forget(b);
}

/// the three shapes every setter is stepped from
fn step_all_shapes(op: u8) {
    unsafe {
        crate::verif_kani::VIOL = [false; 20];
    }
    step(op, false, 2, 1);
    step(op, true, 0, 0);
    step(op, false, 1, 2);
    finish!(17);
}

macro_rules! steps {
    ($($name:ident = $op:expr;)+) => { $(
        harness! { #[kani::unwind(6)] fn $name() { step_all_shapes($op); } }
    )+ };
}
steps! {
    step_name_empty = NAME_EMPTY; step_name_set = NAME_SET; step_with_reducer = WITH_REDUCER;
    step_with_reducers_0 = WITH_REDUCERS_0; step_with_reducers_2 = WITH_REDUCERS_2;
    step_add_reducer = ADD_REDUCER; step_without_reducer = WITHOUT_REDUCER;
    step_with_capacity = WITH_CAPACITY; step_with_policy = WITH_POLICY;
    step_with_middleware = WITH_MIDDLEWARE; step_with_middlewares_0 = WITH_MIDDLEWARES_0;
    step_with_middlewares_2 = WITH_MIDDLEWARES_2; step_add_middleware = ADD_MIDDLEWARE;
}

/// `build()` on an arbitrary record: Err exactly when the statement says
fn validate(name_empty: bool, nr: usize, nm: usize) {
    rt::reset_all();
    let b = arbitrary(name_empty, nr, nm);
    let s = snap(&b);
    let expect_err = s.cap == 0 || s.name_len == 0 || (s.n_red == 0 && !s.without);
    let r = b.build();
    chk!(17, r.is_err() == expect_err, "build() is Err exactly when capacity=0, name empty, or no reducer without without_reducer()");
    kani::cover!(r.is_ok(), "COVER-OPT build accepted");
    kani::cover!(r.is_err(), "COVER-OPT build rejected");
    core::mem::forget(r);
}
harness! { #[kani::unwind(6)] fn build_validate_a() { unsafe { crate::verif_kani::VIOL = [false; 20]; } validate(false, 0, 0); finish!(17); } }
harness! { #[kani::unwind(6)] fn build_validate_b() { unsafe { crate::verif_kani::VIOL = [false; 20]; } validate(true, 0, 1); finish!(17); } }
harness! { #[kani::unwind(6)] fn build_validate_c() { unsafe { crate::verif_kani::VIOL = [false; 20]; } validate(false, 2, 0); finish!(17); } }
harness! { #[kani::unwind(6)] fn build_validate_d() { unsafe { crate::verif_kani::VIOL = [false; 20]; } validate(true, 1, 2); finish!(17); } }

//! C02 / C05 / C06 (and the channel part of C18) — unit harnesses on the real
//! `SenderChannel::send` / `ReceiverChannel::{recv,try_recv}` of channel.rs over the channel
//! model, with the real `CountMetrics` attached.
//!
//! * `chan_step_capN`: ONE `send(x)` from an arbitrary queue (symbolic length 0..=cap,
//!   symbolic items, each an Action or the Exit marker) under a symbolic policy: new
//!   content, return value, dropped-counter delta and the queue primitive used equal the
//!   model.  A blocked BlockOnFull send is served by a consumer that takes the head.
//! * `chan_burst_capN`: cap+2 sends without a consumer: survivors are the newest (DropOldest)
//!   / oldest (DropLatest) `cap`, in order; the queue never exceeds `cap`.
//! * `chan_race_*`: DropOldest / DropLatest `send` with a consumer step (`recv`) placed at a
//!   symbolic scheduling point INSIDE the send (before the first try_send, between the
//!   failed try_send and the try_recv, between the try_recv and the second try_send):
//!   conservation, order of survivors, never blocking.
#![allow(static_mut_refs)]

use super::rt;
use super::{chk, finish, harness};
use crate::channel::{BackpressureChannel, BackpressurePolicy, ReceiverChannel, SenderChannel};
use crate::metrics::{CountMetrics, Metrics};
use crate::store_impl::ActionOp;
use std::sync::atomic::Ordering;
use std::sync::Arc;

fn pol(p: u8) -> BackpressurePolicy {
    match p {
        0 => BackpressurePolicy::BlockOnFull,
        1 => BackpressurePolicy::DropOldest,
        _ => BackpressurePolicy::DropLatest,
    }
}

/// item encoding used by the model: 0 = Exit marker, v>0 = Action(v)
fn mk(v: u8) -> ActionOp<u8> {
    if v == 0 {
        ActionOp::Exit(rt::now_model())
    } else {
        ActionOp::Action(v)
    }
}
fn code(op: &ActionOp<u8>) -> u8 {
    match op {
        ActionOp::Action(v) => *v,
        ActionOp::Exit(_) => 0,
    }
}

static mut RX: Option<ReceiverChannel<u8>> = None;
static mut TAKEN: [u8; 8] = [0; 8];
static mut N_TAKEN: usize = 0;
static mut BLOCKS: usize = 0;

fn consumer_take() -> bool {
    unsafe {
        if let Some(rx) = RX.as_ref() {
            if let Some(op) = rx.try_recv() {
                if N_TAKEN < 8 {
                    TAKEN[N_TAKEN] = code(&op);
                }
                N_TAKEN += 1;
                core::mem::forget(op);
                return true;
            }
        }
    }
    false
}

/// scheduler for a blocked BlockOnFull send: the consumer takes the head
fn block_hook(_kind: u8, _obj: usize) {
    unsafe {
        BLOCKS += 1;
    }
    consumer_take();
}

fn dropped(m: &Arc<CountMetrics>) -> usize {
    m.action_dropped.load(Ordering::SeqCst)
}

fn setup(cap: usize, p: u8) -> (SenderChannel<u8>, Arc<CountMetrics>) {
    rt::reset_all();
    // native playback: Kani stubs do not apply there, bind the same hooks by pointer
    crossbeam::hooks::set_native(Some(race_yield), Some(block_hook));
    unsafe {
        N_TAKEN = 0;
        BLOCKS = 0;
        TAKEN = [0; 8];
    }
    let metrics = Arc::new(CountMetrics::default());
    let m2: Arc<dyn Metrics + Send + Sync> = metrics.clone();
    let (tx, rx) = BackpressureChannel::<u8>::pair_with("t", cap, pol(p), Some(m2));
    unsafe {
        core::ptr::write(&mut RX, Some(rx));
    }
    (tx, metrics)
}

fn drain_into(out: &mut [u8; 8]) -> usize {
    let mut n = 0;
    unsafe {
        let before = N_TAKEN;
        // at most RING items can be queued
        if consumer_take() {
            if consumer_take() {
                if consumer_take() {
                    if consumer_take() {
                        consumer_take();
                    }
                }
            }
        }
        let mut k = before;
        while k < N_TAKEN && k < 8 {
            out[n] = TAKEN[k];
            n += 1;
            k += 1;
        }
    }
    n
}

// -----------------------------------------------------------------------------------------
// one step from an arbitrary queue
// -----------------------------------------------------------------------------------------
fn chan_step(cap: usize) {
    let p: u8 = kani::any();
    kani::assume(p <= 2);
    let (tx, metrics) = setup(cap, p);
    // arbitrary content: n items, put there through the model's own try_send so that the
    // pre-state is one the real code can reach; the content is what matters
    let n: usize = kani::any();
    kani::assume(n <= cap);
    let mut q = [0u8; 4];
    let mut i = 0;
    while i < cap {
        if i < n {
            let v: u8 = kani::any();
            q[i] = v;
            // pre-fill with the policy's own send (never full here)
            let r = tx.send(mk(v));
            chk!(2, r.is_ok(), "send into a queue with room is accepted under every policy");
            core::mem::forget(r);
        }
        i += 1;
    }
    let d0 = dropped(&metrics);
    let g0 = crossbeam::channel::ghost(0);
    chk!(5, g0.len == n && d0 == 0, "nothing is lost or counted while there is room");

    let x: u8 = kani::any();
    let r = tx.send(mk(x));
    let g1 = crossbeam::channel::ghost(0);
    let d1 = dropped(&metrics);
    let full = n == cap;
    let blocks = unsafe { BLOCKS };

    // expected content after the send, and what the blocked-send consumer received
    let mut exp = [0u8; 5];
    let mut exp_n = 0usize;
    let head_removed = full && p != 2; // BlockOnFull: consumer took it; DropOldest: discarded
    let mut i = 0;
    while i < cap {
        if i < n && !(head_removed && i == 0) {
            exp[exp_n] = q[i];
            exp_n += 1;
        }
        i += 1;
    }
    if !(full && p == 2) {
        exp[exp_n] = x;
        exp_n += 1;
    }

    match p {
        0 => {
            chk!(5, r.is_ok(), "BlockOnFull: send is accepted (after waiting if the queue was full)");
            chk!(5, d1 == d0, "BlockOnFull never counts a dropped action");
            chk!(5, (blocks == 1) == full, "BlockOnFull waits exactly when the queue holds `capacity` items");
            if full {
                let t = unsafe { (N_TAKEN, TAKEN[0]) };
                chk!(5, t.0 == 1 && t.1 == q[0], "the waiting sender resumes once the consumer has taken the head");
            }
        }
        1 => {
            chk!(6, r.is_ok(), "DropOldest: send reports Ok");
            chk!(6, blocks == 0 && g1.n_send_waited == g0.n_send_waited, "DropOldest never waits");
            let expect_drop = if full && q[0] != 0 { 1 } else { 0 };
            chk!(6, d1 == d0 + expect_drop, "DropOldest counts exactly the discarded (oldest) action");
            chk!(18, d1 == d0 + expect_drop, "action_dropped counts the discarded action once (DropOldest)");
        }
        _ => {
            chk!(6, r.is_err() == full, "DropLatest: Err exactly when the new item was discarded");
            chk!(6, blocks == 0 && g1.n_send_waited == g0.n_send_waited, "DropLatest never waits");
            let expect_drop = if full && x != 0 { 1 } else { 0 };
            chk!(6, d1 == d0 + expect_drop, "DropLatest counts exactly the discarded (new) action");
            chk!(18, d1 == d0 + expect_drop, "action_dropped counts the discarded action once (DropLatest)");
        }
    }
    chk!(5, g1.max_len <= cap, "queue length never exceeds the capacity");
    chk!(2, g1.len == exp_n, "queue length after the send equals the model");
    // FIFO: draining returns exactly the expected content in order
    let mut got = [0u8; 8];
    unsafe {
        N_TAKEN = 0;
    }
    let got_n = drain_into(&mut got);
    chk!(2, got_n == exp_n, "drained item count equals the model");
    let mut k = 0;
    while k < 4 {
        if k < exp_n && k < got_n {
            chk!(2, got[k] == exp[k], "FIFO: items come out in the order they went in (old content, then the new item)");
            if p != 0 {
                chk!(6, got[k] == exp[k], "drop policy removed exactly the item it names");
            }
        }
        k += 1;
    }
    kani::cover!(full && p == 0, "COVER BlockOnFull send met a full queue");
    kani::cover!(full && p == 1, "COVER DropOldest send met a full queue");
    kani::cover!(full && p == 2, "COVER DropLatest send met a full queue");
    core::mem::forget(r);
    core::mem::forget(tx);
    finish!(2, 5, 6, 18);
}

harness! {
    #[kani::stub(crossbeam::hooks::block, block_hook)]
    #[kani::unwind(6)]
    fn chan_step_cap1() { chan_step(1); }
}
harness! {
    #[kani::stub(crossbeam::hooks::block, block_hook)]
    #[kani::unwind(6)]
    fn chan_step_cap2() { chan_step(2); }
}
harness! {
    #[kani::stub(crossbeam::hooks::block, block_hook)]
    #[kani::unwind(6)]
    fn chan_step_cap3() { chan_step(3); }
}
harness! {
    #[kani::stub(crossbeam::hooks::block, block_hook)]
    #[kani::unwind(7)]
    fn chan_step_cap4() { chan_step(4); }
}

// -----------------------------------------------------------------------------------------
// burst without a consumer
// -----------------------------------------------------------------------------------------
fn chan_burst(cap: usize, p: u8) {
    let (tx, metrics) = setup(cap, p);
    let n = cap + 2;
    let mut sent = [0u8; 6];
    let mut errs = 0usize;
    let mut actions = 0usize;
    let mut i = 0;
    while i < n {
        let v: u8 = kani::any();
        kani::assume(v != 0);
        sent[i] = v;
        actions += 1;
        let r = tx.send(mk(v));
        if p == 2 {
            chk!(6, r.is_err() == (i >= cap), "DropLatest burst: Err exactly for the actions beyond the capacity");
        } else {
            chk!(6, r.is_ok(), "DropOldest burst: every send reports Ok");
        }
        if r.is_err() {
            errs += 1;
        }
        core::mem::forget(r);
        i += 1;
    }
    let g = crossbeam::channel::ghost(0);
    chk!(6, g.n_send_waited == 0 && unsafe { BLOCKS } == 0, "drop policies never wait");
    chk!(5, g.max_len <= cap, "queue never exceeds the capacity during a burst");
    chk!(6, g.len == cap, "after a burst of n > capacity exactly `capacity` actions remain");
    chk!(6, dropped(&metrics) == n - cap, "every action of the burst is queued or counted dropped, never both or neither");
    chk!(18, dropped(&metrics) + g.len == actions, "dropped + queued = dispatched");
    let mut got = [0u8; 8];
    let got_n = drain_into(&mut got);
    chk!(6, got_n == cap, "survivors = capacity");
    let mut k = 0;
    while k < 3 {
        if k < cap && k < got_n {
            let want = if p == 1 { sent[n - cap + k] } else { sent[k] };
            chk!(6, got[k] == want, "survivors are the newest (DropOldest) / oldest (DropLatest) `capacity` actions in dispatch order");
        }
        k += 1;
    }
    let _ = errs;
    core::mem::forget(tx);
    finish!(5, 6, 18);
}
harness! { #[kani::unwind(7)] fn chan_burst_oldest_cap1() { chan_burst(1, 1); } }
harness! { #[kani::unwind(7)] fn chan_burst_oldest_cap2() { chan_burst(2, 1); } }
harness! { #[kani::unwind(7)] fn chan_burst_latest_cap1() { chan_burst(1, 2); } }
harness! { #[kani::unwind(7)] fn chan_burst_latest_cap2() { chan_burst(2, 2); } }
harness! { #[kani::unwind(7)] fn chan_burst_oldest_cap3() { chan_burst(3, 1); } }
harness! { #[kani::unwind(7)] fn chan_burst_latest_cap3() { chan_burst(3, 2); } }

// -----------------------------------------------------------------------------------------
// drop-policy send racing with the consumer
// -----------------------------------------------------------------------------------------
static mut RACE_ARMED: bool = false;
static mut RACE_AT: u8 = 0;
static mut RACE_POINT: u8 = 0;
static mut IN_HOOK: bool = false;
static mut RACE_FIRED: bool = false;

/// yield hook: at the RACE_AT-th channel scheduling point of the armed send the consumer
/// takes one item (a `recv` by the reducer loop running concurrently)
fn race_yield(_kind: u8, _obj: usize) {
    unsafe {
        if !RACE_ARMED || IN_HOOK {
            return;
        }
        let here = RACE_POINT;
        RACE_POINT += 1;
        if here == RACE_AT {
            IN_HOOK = true;
            RACE_FIRED = consumer_take();
            IN_HOOK = false;
        }
    }
}

fn chan_race(cap: usize, p: u8) {
    let (tx, metrics) = setup(cap, p);
    // queue full of distinct-position actions
    let mut sent = [0u8; 5];
    let mut i = 0;
    while i < cap {
        let v: u8 = kani::any();
        kani::assume(v != 0);
        sent[i] = v;
        let r = tx.send(mk(v));
        core::mem::forget(r);
        i += 1;
    }
    let x: u8 = kani::any();
    kani::assume(x != 0);
    sent[cap] = x;
    unsafe {
        RACE_AT = kani::any();
        kani::assume(RACE_AT <= 5);
        RACE_POINT = 0;
        RACE_FIRED = false;
        RACE_ARMED = true;
    }
    let r = tx.send(mk(x));
    unsafe {
        RACE_ARMED = false;
    }
    let fired = unsafe { RACE_FIRED };
    let g = crossbeam::channel::ghost(0);
    let d = dropped(&metrics);
    chk!(6, g.n_send_waited == 0 && unsafe { BLOCKS } == 0, "a drop-policy send never waits, whatever the consumer does");
    chk!(5, g.max_len <= cap, "queue never exceeds the capacity under a racing consumer");
    if p == 2 {
        // DropLatest through the channel: Err exactly when x was discarded (and counted)
        chk!(6, r.is_err() == (d == 1), "DropLatest: Err exactly for the discarded (and counted) action");
    }
    // received during the send (0 or 1 item), then drain the rest
    let taken_in_race = unsafe { N_TAKEN };
    let mut got = [0u8; 8];
    let rest = drain_into(&mut got);
    let total_out = taken_in_race + rest;
    // conservation: cap+1 actions went in; each came out exactly once or was counted once
    chk!(6, total_out + d == cap + 1, "conservation: every action is received once or counted dropped once, never both or neither");
    chk!(18, total_out + d == cap + 1, "received + dropped = dispatched (racing consumer)");
    if r.is_err() {
        chk!(6, d >= 1, "an Err from send is always accounted for in the dropped counter");
    }
    // order: the sequence of received items is a subsequence of the dispatch order
    let mut all = [0u8; 8];
    let mut n_all = 0;
    unsafe {
        let mut k = 0;
        while k < 8 {
            if k < N_TAKEN {
                all[n_all] = TAKEN[k];
                n_all += 1;
            }
            k += 1;
        }
    }
    // positions in `sent` must be strictly increasing (values may repeat: match greedily)
    let mut pos = 0usize;
    let mut ok = true;
    let mut k = 0;
    while k < 5 {
        if k < n_all {
            // advance pos to the next occurrence of all[k]
            let mut found = false;
            let mut j = 0;
            while j < 5 {
                if !found && j >= pos && j <= cap && sent[j] == all[k] {
                    found = true;
                    pos = j + 1;
                }
                j += 1;
            }
            if !found {
                ok = false;
            }
        }
        k += 1;
    }
    chk!(2, ok, "survivors are received in dispatch order (racing consumer)");
    chk!(6, ok, "survivors keep their dispatch order under a racing consumer");
    kani::cover!(fired, "COVER the consumer took an item inside the send");
    kani::cover!(fired && d == 0, "COVER-OPT racing consumer made room so that nothing was dropped");
    core::mem::forget(r);
    core::mem::forget(tx);
    finish!(2, 5, 6, 18);
}
harness! {
    #[kani::stub(crossbeam::hooks::yield_point, race_yield)]
    #[kani::unwind(10)]
    fn chan_race_oldest_cap1() { chan_race(1, 1); }
}
harness! {
    #[kani::stub(crossbeam::hooks::yield_point, race_yield)]
    #[kani::unwind(10)]
    fn chan_race_oldest_cap2() { chan_race(2, 1); }
}
harness! {
    #[kani::stub(crossbeam::hooks::yield_point, race_yield)]
    #[kani::unwind(10)]
    fn chan_race_latest_cap2() { chan_race(2, 2); }
}
harness! {
    #[kani::stub(crossbeam::hooks::yield_point, race_yield)]
    #[kani::unwind(10)]
    fn chan_race_oldest_cap3() { chan_race(3, 1); }
}

/// vacuity twin: claims DropOldest keeps the oldest item — must be refuted
harness! {
    #[kani::unwind(7)]
    fn twin_u_chan() {
        let (tx, _m) = setup(1, 1);
        let a: u8 = kani::any();
        let b: u8 = kani::any();
        kani::assume(a != 0 && b != 0 && a != b);
        core::mem::forget(tx.send(mk(a)));
        core::mem::forget(tx.send(mk(b)));
        let mut got = [0u8; 8];
        let n = drain_into(&mut got);
        chk!(6, n == 1 && got[0] == a, "TWIN (wrong on purpose): DropOldest keeps the oldest");
        chk!(2, n == 1 && got[0] == a, "TWIN (wrong on purpose)");
        chk!(5, n == 2, "TWIN (wrong on purpose): queue exceeds capacity");
        core::mem::forget(tx);
        finish!(2, 5, 6);
    }
}

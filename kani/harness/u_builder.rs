//! C17 — U-builder: every sequence of builder calls up to a length bound over the full
//! option alphabet is applied to the real `StoreBuilder`; `build()` is called and both its
//! Ok/Err outcome and the configuration of the resulting store are compared with a
//! record-of-last-settings model.
//!
//! The *call sequence* is case-split outside the solver (one straight-line run per
//! sequence, several runs per harness); a symbolic sequence makes `Vec` lengths symbolic
//! and `Vec::push` on such a vector costs millions of SAT variables (measured).  Within a
//! run the arguments that are plain data (capacity 0..3, policy, initial state, probe
//! actions) are symbolic; container sizes and the empty/non-empty name are part of the
//! alphabet (20 operations; capacity and policy are enumerated too, see the comments at their cases).
#![allow(static_mut_refs)]

use super::rt;
use super::script::{self, Act, ScriptMiddleware, ScriptReducer, St, MAXM, MAXR};
use super::{chk, finish, harness};
use crate::{BackpressurePolicy, Dispatcher, Middleware, Reducer, StoreBuilder};
use std::sync::Arc;

fn red(i: u8) -> Box<dyn Reducer<St, Act> + Send + Sync> {
    Box::new(ScriptReducer { idx: i })
}
fn mw(i: u8) -> Arc<dyn Middleware<St, Act> + Send + Sync> {
    Arc::new(ScriptMiddleware { idx: i })
}
fn pol(p: u8) -> BackpressurePolicy {
    match p {
        0 => BackpressurePolicy::BlockOnFull,
        1 => BackpressurePolicy::DropOldest,
        _ => BackpressurePolicy::DropLatest,
    }
}

pub const NAME_EMPTY: u8 = 0;
pub const NAME_SET: u8 = 1;
pub const WITH_REDUCER: u8 = 2;
pub const WITH_REDUCERS_0: u8 = 3;
pub const WITH_REDUCERS_1: u8 = 4;
pub const WITH_REDUCERS_2: u8 = 5;
pub const ADD_REDUCER: u8 = 6;
pub const WITHOUT_REDUCER: u8 = 7;
pub const CAP_0: u8 = 8;
pub const CAP_1: u8 = 9;
pub const CAP_2: u8 = 10;
pub const CAP_3: u8 = 11;
pub const POLICY_BLOCK: u8 = 12;
pub const POLICY_OLDEST: u8 = 13;
pub const POLICY_LATEST: u8 = 14;
pub const WITH_MIDDLEWARE: u8 = 15;
pub const WITH_MIDDLEWARES_0: u8 = 16;
pub const WITH_MIDDLEWARES_1: u8 = 17;
pub const WITH_MIDDLEWARES_2: u8 = 18;
pub const ADD_MIDDLEWARE: u8 = 19;
pub const OPS: u8 = 20;

/// record-of-last-settings model
struct Model {
    name_empty: bool,
    reducers: [u8; 8],
    n_red: usize,
    allow_empty: bool,
    cap: usize,
    policy: u8,
    mws: [u8; 8],
    n_mw: usize,
}

/// One run: apply the (concrete) call sequence with symbolic arguments, build, compare.
/// `probes`: 1 = capacity and reducer count, 2 = policy behaviour, 4 = reducer and
/// middleware order through one real `do_reduce`.
pub fn builder_seq(ops: &[u8], start_with_reducer: bool, probes: u8) {
    rt::reset_all();
    script::reset_tables();
    crossbeam::hooks::set_native(None, Some(builder_block));
    let init: St = kani::any();
    let mut m = Model {
        name_empty: false,
        reducers: [0; 8],
        n_red: 0,
        allow_empty: false,
        cap: crate::store::DEFAULT_CAPACITY,
        policy: 0,
        mws: [0; 8],
        n_mw: 0,
    };
    // fresh callback ids so that identity and order are observable
    let mut next_r: u8 = 0;
    let mut next_m: u8 = 0;
    let mut b = if start_with_reducer {
        m.reducers[0] = 0;
        m.n_red = 1;
        next_r = 1;
        StoreBuilder::new_with_reducer(init, red(0))
    } else {
        StoreBuilder::new(init)
    };

    let l = ops.len();
    let mut step = 0;
    while step < l {
        match ops[step] {
            NAME_EMPTY => {
                b = b.with_name(String::new());
                m.name_empty = true;
            }
            NAME_SET => {
                b = b.with_name(String::from("a"));
                m.name_empty = false;
            }
            WITH_REDUCER => {
                b = b.with_reducer(red(next_r));
                m.reducers[0] = next_r;
                m.n_red = 1;
                m.allow_empty = false;
                next_r += 1;
            }
            WITH_REDUCERS_0 => {
                b = b.with_reducers(vec![]);
                m.n_red = 0;
                m.allow_empty = false;
            }
            WITH_REDUCERS_1 => {
                b = b.with_reducers(vec![red(next_r)]);
                m.reducers[0] = next_r;
                m.n_red = 1;
                m.allow_empty = false;
                next_r += 1;
            }
            WITH_REDUCERS_2 => {
                b = b.with_reducers(vec![red(next_r), red(next_r + 1)]);
                m.reducers[0] = next_r;
                m.reducers[1] = next_r + 1;
                m.n_red = 2;
                m.allow_empty = false;
                next_r += 2;
            }
            ADD_REDUCER => {
                b = b.add_reducer(red(next_r));
                m.reducers[m.n_red] = next_r;
                m.n_red += 1;
                next_r += 1;
            }
            WITHOUT_REDUCER => {
                b = b.without_reducer();
                m.allow_empty = true;
            }
            CAP_0 | CAP_1 | CAP_2 | CAP_3 => {
                // concrete: a symbolic capacity makes build()'s Ok/Err a symbolic merge of a
                // valid and an invalid store pointer, which explodes every later dereference
                let c = (ops[step] - CAP_0) as usize;
                b = b.with_capacity(c);
                m.cap = c;
            }
            POLICY_BLOCK | POLICY_OLDEST | POLICY_LATEST => {
                // concrete as well: a symbolic policy stored into the builder record made
                // symex lose the (concrete) Ok/Err outcome of build() (measured)
                let p = ops[step] - POLICY_BLOCK;
                b = b.with_policy(pol(p));
                m.policy = p;
            }
            WITH_MIDDLEWARE => {
                b = b.with_middleware(mw(next_m));
                m.mws[0] = next_m;
                m.n_mw = 1;
                next_m += 1;
            }
            WITH_MIDDLEWARES_0 => {
                b = b.with_middlewares(vec![]);
                m.n_mw = 0;
            }
            WITH_MIDDLEWARES_1 => {
                b = b.with_middlewares(vec![mw(next_m)]);
                m.mws[0] = next_m;
                m.n_mw = 1;
                next_m += 1;
            }
            WITH_MIDDLEWARES_2 => {
                b = b.with_middlewares(vec![mw(next_m), mw(next_m + 1)]);
                m.mws[0] = next_m;
                m.mws[1] = next_m + 1;
                m.n_mw = 2;
                next_m += 2;
            }
            ADD_MIDDLEWARE => {
                b = b.add_middleware(mw(next_m));
                m.mws[m.n_mw] = next_m;
                m.n_mw += 1;
                next_m += 1;
            }
            _ => {}
        }
        step += 1;
    }
    if next_r as usize > MAXR || next_m as usize > MAXM {
        panic!("VERIF-BOUND: more callback ids than record slots");
    }

    let expect_err = m.cap == 0 || m.name_empty || (m.n_red == 0 && !m.allow_empty);
    let r = b.build();
    chk!(17, r.is_err() == expect_err, "build() is Err exactly when capacity=0, name empty, or no reducer without without_reducer()");
    unsafe {
        SAW_ERR |= expect_err;
    }
    // `expect_err` is concrete (the whole configuration is): the probes are only entered
    // when the model says the store exists
    if expect_err {
        core::mem::forget(r);
        return;
    }
    match r {
        Err(e) => core::mem::forget(e),
        Ok(store) => {
            if probes & 1 != 0 {
                // capacity: what channel::bounded received for the dispatch queue
                let g = crossbeam::channel::ghost(0);
                chk!(17, g.cap == m.cap, "dispatch queue created with the configured capacity");
                let rs = store.reducers.lock().unwrap();
                chk!(17, rs.len() == m.n_red, "number of reducers = configured");
            }
            if probes & 2 != 0 {
                // policy: which queue primitive dispatch uses, what happens on a full queue,
                // and the report of Dispatcher::dispatch
                let before = crossbeam::channel::ghost(0);
                let res = store.dispatch(kani::any());
                let after = crossbeam::channel::ghost(0);
                chk!(17, res.is_ok(), "dispatch on a fresh store is accepted");
                chk!(17, after.len == before.len + 1, "the accepted action is queued");
                if m.cap <= 3 {
                    // fill the queue, then one more: the configured policy decides what happens
                    if m.cap >= 2 {
                        core::mem::forget(store.dispatch(kani::any()));
                    }
                    if m.cap >= 3 {
                        core::mem::forget(store.dispatch(kani::any()));
                    }
                    let full = crossbeam::channel::ghost(0);
                    chk!(17, full.len == m.cap, "queue filled to the configured capacity");
                    let d: Arc<crate::StoreImpl<St, Act>> = store.clone();
                    unsafe {
                        BUILDER_BLOCKS = 0;
                    }
                    let r2 = Dispatcher::dispatch(&d, kani::any());
                    let fin = crossbeam::channel::ghost(0);
                    let blocked = unsafe { BUILDER_BLOCKS };
                    if m.policy == 0 {
                        chk!(17, blocked == 1 && r2.is_ok() && fin.len == m.cap, "BlockOnFull configured: the dispatch waits until the reducer side frees a slot, then is accepted");
                    } else if m.policy == 1 {
                        chk!(17, blocked == 0 && r2.is_ok() && fin.n_taken == full.n_taken + 1 && fin.len == m.cap, "DropOldest configured: head evicted, new action admitted, no waiting");
                    } else {
                        chk!(17, blocked == 0 && r2.is_err() && fin.n_taken == full.n_taken && fin.len == m.cap, "DropLatest configured: new action rejected, queue untouched, no waiting");
                    }
                    chk!(17, fin.max_len <= m.cap, "queue never exceeded the configured capacity");
                    core::mem::forget(r2);
                    core::mem::forget(d);
                }
                core::mem::forget(res);
            }
            if probes & 4 != 0 {
                // reducer and middleware order: one real do_reduce (all verdicts Continue)
                unsafe {
                    script::CUR_MODE = 0;
                    script::CUR = 0;
                    script::LAST_REDUCER = 255;
                }
                let s_in: St = kani::any();
                let act: Act = kani::any();
                let disp: Arc<dyn Dispatcher<Act>> = Arc::new(store.clone());
                let (_need, _out, eff) = store.do_reduce(&act, s_in, disp, rt::now_model());
                core::mem::forget(eff);
                unsafe {
                    let mut id = 0;
                    while id < next_r as usize {
                        // reducer `id` is configured iff it is in the model's list
                        let mut pos: usize = 99;
                        let mut k = 0;
                        while k < m.n_red {
                            if m.reducers[k] as usize == id {
                                pos = k;
                            }
                            k += 1;
                        }
                        let rec = script::RED[0][id];
                        if pos == 99 {
                            chk!(17, rec.n == 0, "a reducer that was replaced is not in the chain");
                        } else {
                            chk!(17, rec.n == 1, "every configured reducer is in the chain exactly once");
                            if pos > 0 {
                                let prev = script::RED[0][m.reducers[pos - 1] as usize];
                                chk!(17, prev.n == 1 && prev.at < rec.at, "reducers run in configured order");
                            }
                        }
                        id += 1;
                    }
                    let mut id = 0;
                    while id < next_m as usize {
                        let mut pos: usize = 99;
                        let mut k = 0;
                        while k < m.n_mw {
                            if m.mws[k] as usize == id {
                                pos = k;
                            }
                            k += 1;
                        }
                        let rec = script::MW[0][id][script::H_REDUCE];
                        if pos == 99 {
                            chk!(17, rec.n == 0, "a middleware that was replaced is not installed");
                        } else {
                            chk!(17, rec.n == 1, "every configured middleware is installed exactly once");
                            if pos > 0 {
                                let prev = script::MW[0][m.mws[pos - 1] as usize][script::H_REDUCE];
                                chk!(17, prev.n == 1 && prev.at < rec.at, "middlewares run in configured order");
                            }
                        }
                        id += 1;
                    }
                }
            }
            core::mem::forget(store);
        }
    }
}

static mut SAW_ERR: bool = false;
static mut BUILDER_BLOCKS: u8 = 0;
/// a BlockOnFull dispatch met the full queue: the reducer side takes the head
pub fn builder_block(kind: u8, obj: usize) {
    unsafe {
        if kind == crossbeam::hooks::SEND && obj == 0 && BUILDER_BLOCKS == 0 {
            BUILDER_BLOCKS = 1;
            crossbeam::channel::model_take_head::<crate::store_impl::ActionOp<Act>>(0);
            return;
        }
    }
    panic!("VERIF-DEADLOCK: blocked with nothing to unblock");
}


// ---- quick tier: hand-picked sequences, all probes, one run per harness ----------------
macro_rules! seqs {
    ($($name:ident = [$($op:expr),+], $nwr:expr;)+) => { $(
        harness! { #[kani::unwind(6)] fn $name() {
            unsafe { super::VIOL = [false; 20]; }
            builder_seq(&[$($op),+], $nwr, 7);
            finish!(17);
        } }
    )+ };
}
seqs! {
    wire_without_then_cap = [WITHOUT_REDUCER, CAP_2], false;
    wire_cap_then_without = [CAP_2, WITHOUT_REDUCER], false;
    wire_reducers_append = [WITH_REDUCERS_2, ADD_REDUCER], false;
    wire_reducer_replace = [ADD_REDUCER, WITH_REDUCER], true;
    wire_mw_replace = [ADD_MIDDLEWARE, WITH_MIDDLEWARE], true;
    wire_mw_append = [WITH_MIDDLEWARES_2, ADD_MIDDLEWARE], true;
    wire_policy_cap = [POLICY_OLDEST, CAP_1], true;
    wire_cap_policy_mw = [CAP_3, POLICY_LATEST, WITH_MIDDLEWARES_2], true;
    wire_name_policy_cap = [NAME_SET, POLICY_OLDEST, CAP_2], true;
    wire_policy_last_wins = [POLICY_LATEST, CAP_2, POLICY_OLDEST], true;
    wire_cap_last_wins = [CAP_1, CAP_0, CAP_2], true;
    wire_name_last_wins = [NAME_EMPTY, WITH_REDUCER, NAME_SET], false;
}

/// vacuity twin: a model that forgets `without_reducer()` must be refuted
harness! { #[kani::unwind(6)] fn twin_u_builder() {
    rt::reset_all();
    script::reset();
    let r = StoreBuilder::<St, Act>::new(kani::any()).with_capacity(2).without_reducer().build();
    chk!(17, r.is_err(), "TWIN (wrong on purpose): without_reducer() has no effect");
    core::mem::forget(r);
    finish!(17);
} }

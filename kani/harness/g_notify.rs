//! N- harnesses: the REAL loop closure and the REAL `do_notify` (subscriber snapshot,
//! subscriber callbacks, state iterator, channeled subscribers), with `do_reduce` and
//! `do_effect` summarised.  Serves C14 (state iterator), C10 (channeled subscribers,
//! starved-consumer schedules), C09 (lifecycle at loop level) and the C13 obligations
//! "nobody blocks forever" incl. the known finding (iterator dropped with an unread item).
#![allow(static_mut_refs)]

use super::g_glue::{self, *};
use super::rt;
use super::script::{self, *};
use super::{chk, finish, harness};
use crate::{BackpressurePolicy, Dispatcher, StoreImpl, Subscriber, Subscription};
use std::sync::Arc;

macro_rules! notify_harness {
    ($(#[$m:meta])* fn $name:ident() $body:block) => {
        harness! {
            #[kani::stub(crate::store_impl::StoreImpl::do_reduce, crate::verif_kani::g_glue::sum_reduce)]
            #[kani::stub(crate::store_impl::StoreImpl::do_effect, crate::verif_kani::g_glue::sum_effect)]
            #[kani::stub(crossbeam::hooks::block, n_block)]
            #[kani::stub(crossbeam::hooks::yield_point, crate::verif_kani::rt::default_yield)]
            $(#[$m])*
            fn $name() $body
        }
    };
}

/// sequential recorder (used where the callback runs long after the action was taken from
/// the dispatch queue: channeled subscribers, iterator consumers)
#[derive(Clone, Copy, PartialEq, Eq)]
pub struct Item {
    pub st: St,
    pub act: u8,
    pub ctx: u8,
    pub at: u8,
}
pub const ITEM0: Item = Item { st: ST0, act: 0, ctx: 0, at: 0 };
pub static mut SEQ: [[Item; 4]; 2] = [[ITEM0; 4]; 2];
pub static mut SEQ_N: [usize; 2] = [0; 2];
pub static mut SEQ_UNSUB: [u8; 2] = [0; 2];

fn seq_push(w: usize, st: St, act: u8) {
    unsafe {
        let n = SEQ_N[w];
        if n < 4 {
            SEQ[w][n] = Item { st, act, ctx: rt::ctx(), at: rt::tick() };
        }
        SEQ_N[w] = n + 1;
    }
}

/// subscriber that appends what it is told to sequence `w`
pub struct SeqSubscriber {
    pub w: usize,
}
impl Subscriber<St, Act> for SeqSubscriber {
    fn on_notify(&self, state: &St, action: &Act) {
        seq_push(self.w, *state, *action);
    }
    fn on_unsubscribe(&self) {
        unsafe {
            SEQ_UNSUB[self.w] += 1;
        }
        rt::tick();
    }
}

// ---- the consumer of a state iterator, as a schedulable unit -----------------------------
static mut ITER: Option<Box<dyn Iterator<Item = (St, Act)>>> = None;
/// channel id of the iterator's / channeled subscriber's queue (second channel created)
const SIDE_CHAN: usize = 1;
static mut CONSUMER_ALIVE: bool = false;
static mut NONE_SEEN: u8 = 0;
static mut IN_BLOCK: bool = false;

/// one `next()` of the consumer thread; returns false if it yielded None
fn consumer_next() -> bool {
    unsafe {
        let r = rt::in_ctx(rt::CTX_CONSUMER, || match ITER.as_mut() {
            Some(it) => it.next(),
            None => None,
        });
        match r {
            Some((s, a)) => {
                seq_push(1, s, a);
                true
            }
            None => {
                NONE_SEEN += 1;
                false
            }
        }
    }
}

/// scheduler: somebody cannot proceed.  The only blocking the N- scenarios allow is the
/// reducer context (or a client releasing the iterator) sending into the full capacity-1
/// iterator queue: the consumer takes one item.  Anything else is a deadlock.
fn n_block(kind: u8, obj: usize) {
    unsafe {
        // a unit run by the scheduler must not block itself (it is only chosen when enabled);
        // the flag also keeps the symbolic executor from re-entering the scheduler
        if IN_BLOCK {
            panic!("VERIF-DEADLOCK: a scheduled unit blocked");
        }
        if kind == crossbeam::hooks::SEND && obj == SIDE_CHAN && CONSUMER_ALIVE {
            if crossbeam::channel::ghost(SIDE_CHAN).len > 0 {
                IN_BLOCK = true;
                consumer_next();
                IN_BLOCK = false;
                return;
            }
        }
    }
    panic!("VERIF-DEADLOCK: a blocking channel operation can never be unblocked");
}

fn n_setup(cap: usize, init: St) -> Arc<Store> {
    g_reset();
    crossbeam::hooks::set_native(Some(rt::default_yield), Some(n_block));
    unsafe {
        SEQ = [[ITEM0; 4]; 2];
        SEQ_N = [0; 2];
        SEQ_UNSUB = [0; 2];
        core::ptr::write(&mut ITER, None);
        CONSUMER_ALIVE = false;
        NONE_SEEN = 0;
        IN_BLOCK = false;
    }
    // glue store without the silent probe subscriber: the reference stream is SeqSubscriber 0
    let b = crate::StoreBuilder::new(init)
        .with_capacity(cap)
        .with_policy(BackpressurePolicy::BlockOnFull)
        .with_reducers(vec![Box::new(SummaryReducer)])
        .with_middlewares(vec![Arc::new(ProbeMiddleware)]);
    let store = match b.build() {
        Ok(s) => s,
        Err(e) => {
            core::mem::forget(e);
            panic!("VERIF-MODEL: harness store failed to build");
        }
    };
    unsafe {
        core::ptr::write(&mut G_STORE, Some(store.clone()));
    }
    store
}

fn dispatch_k(store: &Arc<Store>, k: usize, needs: [u8; 3]) -> [u8; MAXA] {
    symbolic_summaries(k);
    let mut acts = [0u8; MAXA];
    let mut j = 0;
    while j < k {
        unsafe {
            // need_dispatch per action: 0 = Keep, 1 = Dispatch, 2 = symbolic
            if needs[j] != 2 {
                SUM_NEED[j] = needs[j] == 1;
            }
        }
        acts[j] = kani::any();
        core::mem::forget(StoreImpl::dispatch(store, acts[j]));
        j += 1;
    }
    acts
}

/// compare sequence `w` (from position `from`) with the expected notification stream of
/// actions lo..k
fn expect_stream(w: usize, acts: &[u8; MAXA], lo: usize, k: usize, prop: usize, msg: &'static str) -> usize {
    let mut n = 0usize;
    let mut j = lo;
    while j < k {
        if unsafe { SUM_NEED[j] } {
            let it = unsafe { SEQ[w][if n < 4 { n } else { 3 }] };
            let ok = n < unsafe { SEQ_N[w] } && it.st == unsafe { SUM_OUT[j] } && it.act == acts[j];
            super::record(prop, ok, msg);
            n += 1;
        }
        j += 1;
    }
    n
}

/// dropping the iterator (empty queue) detaches it: later notifications do not reach it,
/// the store keeps working
fn iter_drop_detaches() {
    let store = n_setup(4, kani::any());
    let reference: Arc<dyn Subscriber<St, Act> + Send + Sync> = Arc::new(SeqSubscriber { w: 0 });
    let it = store.iter();
    core::mem::forget(store.add_subscriber(reference));
    let before = store.subscribers.lock().unwrap().len();
    let sends0 = crossbeam::channel::ghost(SIDE_CHAN).n_send;
    drop(it);
    chk!(14, store.subscribers.lock().unwrap().len() + 1 == before, "dropping the iterator detaches it from the store");
    chk!(13, true, "drop(iterator) with nothing unread returns");
    let acts = dispatch_k(&store, 2, [1, 1, 0]);
    store.stop();
    rt::run_loop(0);
    let n_ref = expect_stream(0, &acts, 0, 2, 9, "other subscribers are unaffected by the iterator's release");
    chk!(9, n_ref == 2 && unsafe { SEQ_N[0] } == 2, "the direct subscriber still gets every notification");
    // only the Exit of the release went into the iterator's queue, no notification
    chk!(14, crossbeam::channel::ghost(SIDE_CHAN).n_send == sends0 + 1, "after the drop nothing further is sent to the iterator");
    unsafe {
        core::ptr::write(&mut G_STORE, None);
    }
    core::mem::forget(store);
    finish!(9, 13, 14);
}
notify_harness! { #[kani::unwind(7)] fn iter_drop_empty() { iter_drop_detaches(); } }

/// KNOWN FINDING witness (C13): drop(iterator) while its capacity-1 queue still holds an
/// unread item: `on_unsubscribe` sends Exit with a blocking send into the full queue whose
/// only receiver is the sender's own clone -> the dropping thread blocks forever (holding
/// the subscribers lock).
fn iter_client_drop_unread() {
    let store = n_setup(4, kani::any());
    let it = store.iter();
    // put one unread item into the iterator's queue through the registered subscriber
    let subs = store.subscribers.lock().unwrap().clone();
    let s: St = kani::any();
    subs[0].on_notify(&s, &1);
    core::mem::forget(subs);
    chk!(14, crossbeam::channel::ghost(SIDE_CHAN).len == 1, "the notification is queued for the iterator");
    drop(it); // blocks forever: VERIF-DEADLOCK
    chk!(13, true, "drop(iterator) returned");
    core::mem::forget(store);
    finish!(13, 14);
}
notify_harness! { #[kani::unwind(7)] fn iter_client_drop_unread_witness() { iter_client_drop_unread(); } }

/// vacuity twin
notify_harness! { #[kani::unwind(7)] fn twin_g_notify() {
    let store = n_setup(4, kani::any());
    let it = store.iter();
    chk!(14, crossbeam::channel::ghost(SIDE_CHAN).cap == 2, "TWIN (wrong on purpose): capacity 2");
    chk!(10, false, "TWIN (wrong on purpose)");
    chk!(9, store.subscribers.lock().unwrap().len() == 0, "TWIN (wrong on purpose)");
    chk!(13, false, "TWIN (wrong on purpose)");
    core::mem::forget(it);
    core::mem::forget(store);
    finish!(9, 10, 13, 14);
} }

// -----------------------------------------------------------------------------------------
// S-unsub (C09): unsubscribe(B) by another thread placed at a scheduling point of the loop,
// in particular INSIDE subscriber A's callback (after do_notify took its snapshot)
// -----------------------------------------------------------------------------------------
static mut HB: Option<Box<dyn Subscription>> = None;
static mut T_UNSUB: u8 = 0;
static mut UNSUB_DONE: bool = false;

fn unsub_yield(kind: u8, obj: usize) {
    if rt::at_placement(kind, obj) {
        unsafe {
            // enabled only if the subscribers lock is free (unsubscribe starts by taking it)
            let free = match G_STORE.as_ref() {
                Some(s) => s.subscribers.try_lock().is_ok(),
                None => false,
            };
            if !free {
                return;
            }
            rt::IN_UNIT = true;
            if let Some(h) = HB.as_ref() {
                rt::in_ctx(rt::CTX_CLIENT, || h.unsubscribe());
            }
            T_UNSUB = rt::tick();
            UNSUB_DONE = true;
            rt::IN_UNIT = false;
        }
    }
}
pub fn unsub_yield_pub(kind: u8, obj: usize) {
    unsub_yield(kind, obj);
    rt::on_join(kind, obj);
}

fn s_unsub(kind: u8, obj: usize, occ: u8) {
    let store = n_setup(4, kani::any());
    crossbeam::hooks::set_native(Some(unsub_yield_pub), Some(n_block));
    let a: Arc<dyn Subscriber<St, Act> + Send + Sync> = Arc::new(ScriptSubscriber { idx: 0 });
    let b: Arc<dyn Subscriber<St, Act> + Send + Sync> = Arc::new(ScriptSubscriber { idx: 1 });
    let ha = store.add_subscriber(a);
    let hb = store.add_subscriber(b);
    unsafe {
        core::ptr::write(&mut HB, Some(hb));
        T_UNSUB = 0;
        UNSUB_DONE = false;
    }
    let acts = dispatch_k(&store, 2, [1, 1, 0]);
    rt::arm(kind, obj, occ);
    store.stop();
    rt::run_loop(0);
    unsafe {
        rt::PLACE_ARMED = false;
    }
    let (done, t) = unsafe { (UNSUB_DONE, T_UNSUB) };
    let mut j = 0;
    while j < 2 {
        let ra = unsafe { SUB[j][0] };
        let rb = unsafe { SUB[j][1] };
        chk!(9, ra.n == 1 && ra.st == unsafe { SUM_OUT[j] } && ra.act == acts[j], "other subscribers are unaffected by an unsubscribe");
        chk!(9, rb.n <= 1, "no duplicate notification");
        if rb.n == 1 && done {
            chk!(9, rb.at < t, "once unsubscribe() has returned the subscriber receives nothing further");
        }
        if !done || rb.n == 1 {
            chk!(9, rb.n == 0 || (rb.st == unsafe { SUM_OUT[j] } && rb.act == acts[j]), "what a registered subscriber receives is the action's state and the action");
        }
        j += 1;
    }
    chk!(9, unsafe { UNSUB[1] } == 1 && unsafe { UNSUB[0] } == 1, "on_unsubscribe exactly once per subscriber (at unsubscribe() or at shutdown)");
    kani::cover!(done, "COVER-OPT unsubscribe ran at the placement");
    unsafe {
        core::ptr::write(&mut HB, None);
        core::ptr::write(&mut G_STORE, None);
    }
    core::mem::forget(ha);
    core::mem::forget(store);
    finish!(9);
}
macro_rules! unsub_harness {
    ($($name:ident = ($kind:expr, $obj:expr, $occ:expr);)+) => { $(
        harness! {
            #[kani::stub(crate::store_impl::StoreImpl::do_reduce, crate::verif_kani::g_glue::sum_reduce)]
            #[kani::stub(crate::store_impl::StoreImpl::do_effect, crate::verif_kani::g_glue::sum_effect)]
            #[kani::stub(crossbeam::hooks::block, n_block)]
            #[kani::stub(crossbeam::hooks::yield_point, crate::verif_kani::g_notify::unsub_yield_pub)]
            #[kani::unwind(7)]
            fn $name() { s_unsub($kind, $obj, $occ); }
        }
    )+ };
}
unsub_harness! {
    // before the notification round of action 0 (during its reduce / effect phase)
    s_unsub_reduce0 = (rt::P_PHASE_REDUCE, 0, 0);
    s_unsub_effect0 = (rt::P_PHASE_EFFECT, 0, 0);
    // in before_dispatch of action 0: the subscriber snapshot has not been taken yet
    s_unsub_before_dispatch0 = (rt::P_PHASE_NOTIFY, 0, 0);
    // between the rounds
    s_unsub_between = (crossbeam::hooks::TAKEN, 0, 1);
    s_unsub_reduce1 = (rt::P_PHASE_REDUCE, 1, 0);
    s_unsub_taken0 = (crossbeam::hooks::TAKEN, 0, 0);
    s_unsub_effect1 = (rt::P_PHASE_EFFECT, 1, 0);
    // KNOWN FINDING witnesses: inside A's callback, i.e. after the snapshot was taken
    s_unsub_inside_round0_witness = (rt::P_NOTIFY, 0, 0);
    s_unsub_inside_round1_witness = (rt::P_NOTIFY, 0, 1);
}


// -----------------------------------------------------------------------------------------
// wiring of the public entry points (through the store's `Arc<dyn Subscriber>` list; kept
// minimal because everything reached through a `dyn` object is expensive for the symbolic
// executor): that iter() / subscribed_with() build exactly what u_iter.rs / in_store.rs
// verify concretely typed
// -----------------------------------------------------------------------------------------
fn wire_iter() {
    let store = n_setup(4, kani::any());
    let it = store.iter();
    let g = crossbeam::channel::ghost(SIDE_CHAN);
    chk!(14, crossbeam::channel::channels_created() == 2 && g.cap == 1, "iter() creates one capacity-1 queue");
    chk!(14, store.subscribers.lock().unwrap().len() == 1, "iter() registers exactly one subscriber");
    // a notification through the registered wrapper lands in that queue with a BLOCKING send
    let subs = store.subscribers.lock().unwrap().clone();
    let s: St = kani::any();
    subs[0].on_notify(&s, &3);
    core::mem::forget(subs);
    let g = crossbeam::channel::ghost(SIDE_CHAN);
    chk!(14, g.len == 1 && g.n_send == 1 && g.n_try_send == 0, "the iterator's subscriber forwards with the blocking policy (no pair is ever dropped)");
    core::mem::forget(it);
    core::mem::forget(store);
    finish!(14);
}
notify_harness! { #[kani::unwind(7)] fn wire_iter_h() { wire_iter(); } }

fn wire_chsub(cap: usize, policy: u8) {
    let store = n_setup(4, kani::any());
    let pol = match policy {
        0 => BackpressurePolicy::BlockOnFull,
        1 => BackpressurePolicy::DropOldest,
        _ => BackpressurePolicy::DropLatest,
    };
    let sub = match store.subscribed_with(cap, pol, Box::new(SeqSubscriber { w: 1 })) {
        Ok(s) => s,
        Err(e) => {
            core::mem::forget(e);
            panic!("VERIF-MODEL: subscribed_with failed");
        }
    };
    chk!(10, rt::thread::spawned() == 1, "subscribed_with starts one delivery thread");
    chk!(10, crossbeam::channel::channels_created() == 2 && crossbeam::channel::ghost(SIDE_CHAN).cap == cap, "subscribed_with creates one queue of the requested capacity");
    chk!(10, store.subscribers.lock().unwrap().len() == 1, "subscribed_with registers exactly one (forwarding) subscriber");
    let subs = store.subscribers.lock().unwrap().clone();
    let s: St = kani::any();
    rt::in_ctx(rt::CTX_REDUCER, || subs[0].on_notify(&s, &3));
    core::mem::forget(subs);
    let g = crossbeam::channel::ghost(SIDE_CHAN);
    chk!(10, g.len == 1 && unsafe { SEQ_N[1] } == 0, "the forwarding subscriber only enqueues; the user's subscriber is not called in the reducer context");
    if policy == 0 {
        chk!(10, g.n_send == 1 && g.n_try_send == 0, "the requested blocking policy is used for the subscription's queue");
    } else {
        chk!(10, g.n_send == 0 && g.n_try_send == 1, "the requested drop policy is used for the subscription's queue");
    }
    core::mem::forget(sub);
    core::mem::forget(store);
    finish!(10);
}
notify_harness! { #[kani::unwind(7)] fn wire_chsub_block() { wire_chsub(2, 0); } }
notify_harness! { #[kani::unwind(7)] fn wire_chsub_oldest() { wire_chsub(1, 1); } }
notify_harness! { #[kani::unwind(7)] fn wire_chsub_latest() { wire_chsub(3, 2); } }
/// `subscribed()` = default capacity, blocking policy
fn wire_subscribed_default() {
    let store = n_setup(4, kani::any());
    let sub = match store.subscribed(Box::new(SeqSubscriber { w: 1 })) {
        Ok(s) => s,
        Err(e) => {
            core::mem::forget(e);
            panic!("VERIF-MODEL: subscribed failed");
        }
    };
    chk!(10, crossbeam::channel::ghost(SIDE_CHAN).cap == crate::store::DEFAULT_CAPACITY && rt::thread::spawned() == 1, "subscribed() uses the default capacity and its own thread");
    core::mem::forget(sub);
    core::mem::forget(store);
    finish!(10);
}
notify_harness! { #[kani::unwind(7)] fn wire_subscribed() { wire_subscribed_default(); } }

//! N- harnesses: the REAL loop closure and the REAL `do_notify` (subscriber snapshot,
//! subscriber callbacks, state iterator, channeled subscribers), with `do_reduce` and
//! `do_effect` summarised.  Serves C14 (state iterator), C10 (channeled subscribers,
//! starved-consumer schedules), C09 (lifecycle at loop level) and the C13 obligations
//! "nobody blocks forever" incl. the known finding (iterator dropped with an unread item).
#![allow(static_mut_refs)]

use super::g_glue::{self, *};
use super::rt;
use super::script::{self, *};
use super::{chk, finish, harness};
use crate::{BackpressurePolicy, Dispatcher, StoreImpl, Subscriber, Subscription};
use std::sync::Arc;

macro_rules! notify_harness {
    ($(#[$m:meta])* fn $name:ident() $body:block) => {
        harness! {
            #[kani::stub(crate::store_impl::StoreImpl::do_reduce, crate::verif_kani::g_glue::sum_reduce)]
            #[kani::stub(crate::store_impl::StoreImpl::do_effect, crate::verif_kani::g_glue::sum_effect)]
            #[kani::stub(crossbeam::hooks::block, n_block)]
            $(#[$m])*
            fn $name() $body
        }
    };
}

/// sequential recorder (used where the callback runs long after the action was taken from
/// the dispatch queue: channeled subscribers, iterator consumers)
#[derive(Clone, Copy, PartialEq, Eq)]
pub struct Item {
    pub st: St,
    pub act: u8,
    pub ctx: u8,
    pub at: u8,
}
pub const ITEM0: Item = Item { st: ST0, act: 0, ctx: 0, at: 0 };
pub static mut SEQ: [[Item; 4]; 2] = [[ITEM0; 4]; 2];
pub static mut SEQ_N: [usize; 2] = [0; 2];
pub static mut SEQ_UNSUB: [u8; 2] = [0; 2];

fn seq_push(w: usize, st: St, act: u8) {
    unsafe {
        let n = SEQ_N[w];
        if n < 4 {
            SEQ[w][n] = Item { st, act, ctx: rt::ctx(), at: rt::tick() };
        }
        SEQ_N[w] = n + 1;
    }
}

/// subscriber that appends what it is told to sequence `w`
pub struct SeqSubscriber {
    pub w: usize,
}
impl Subscriber<St, Act> for SeqSubscriber {
    fn on_notify(&self, state: &St, action: &Act) {
        seq_push(self.w, *state, *action);
    }
    fn on_unsubscribe(&self) {
        unsafe {
            SEQ_UNSUB[self.w] += 1;
        }
        rt::tick();
    }
}

// ---- the consumer of a state iterator, as a schedulable unit -----------------------------
static mut ITER: Option<Box<dyn Iterator<Item = (St, Act)>>> = None;
/// channel id of the iterator's / channeled subscriber's queue (second channel created)
const SIDE_CHAN: usize = 1;
static mut CONSUMER_ALIVE: bool = false;
static mut NONE_SEEN: u8 = 0;
static mut IN_BLOCK: bool = false;

/// one `next()` of the consumer thread; returns false if it yielded None
fn consumer_next() -> bool {
    unsafe {
        let r = rt::in_ctx(rt::CTX_CONSUMER, || match ITER.as_mut() {
            Some(it) => it.next(),
            None => None,
        });
        match r {
            Some((s, a)) => {
                seq_push(1, s, a);
                true
            }
            None => {
                NONE_SEEN += 1;
                false
            }
        }
    }
}

/// scheduler: somebody cannot proceed.  The only blocking the N- scenarios allow is the
/// reducer context (or a client releasing the iterator) sending into the full capacity-1
/// iterator queue: the consumer takes one item.  Anything else is a deadlock.
fn n_block(kind: u8, obj: usize) {
    unsafe {
        // a unit run by the scheduler must not block itself (it is only chosen when enabled);
        // the flag also keeps the symbolic executor from re-entering the scheduler
        if IN_BLOCK {
            panic!("VERIF-DEADLOCK: a scheduled unit blocked");
        }
        if kind == crossbeam::hooks::SEND && obj == SIDE_CHAN && CONSUMER_ALIVE {
            if crossbeam::channel::ghost(SIDE_CHAN).len > 0 {
                IN_BLOCK = true;
                consumer_next();
                IN_BLOCK = false;
                return;
            }
        }
    }
    panic!("VERIF-DEADLOCK: a blocking channel operation can never be unblocked");
}

fn n_setup(cap: usize, init: St) -> Arc<Store> {
    g_reset();
    crossbeam::hooks::set_native(None, Some(n_block));
    unsafe {
        SEQ = [[ITEM0; 4]; 2];
        SEQ_N = [0; 2];
        SEQ_UNSUB = [0; 2];
        core::ptr::write(&mut ITER, None);
        CONSUMER_ALIVE = false;
        NONE_SEEN = 0;
        IN_BLOCK = false;
    }
    // glue store without the silent probe subscriber: the reference stream is SeqSubscriber 0
    let b = crate::StoreBuilder::new(init)
        .with_capacity(cap)
        .with_policy(BackpressurePolicy::BlockOnFull)
        .with_reducers(vec![Box::new(SummaryReducer)])
        .with_middlewares(vec![Arc::new(ProbeMiddleware)]);
    let store = match b.build() {
        Ok(s) => s,
        Err(e) => {
            core::mem::forget(e);
            panic!("VERIF-MODEL: harness store failed to build");
        }
    };
    unsafe {
        core::ptr::write(&mut G_STORE, Some(store.clone()));
    }
    store
}

fn dispatch_k(store: &Arc<Store>, k: usize, needs: [u8; 3]) -> [u8; MAXA] {
    symbolic_summaries(k);
    let mut acts = [0u8; MAXA];
    let mut j = 0;
    while j < k {
        unsafe {
            // need_dispatch per action: 0 = Keep, 1 = Dispatch, 2 = symbolic
            if needs[j] != 2 {
                SUM_NEED[j] = needs[j] == 1;
            }
        }
        acts[j] = kani::any();
        core::mem::forget(StoreImpl::dispatch(store, acts[j]));
        j += 1;
    }
    acts
}

/// compare sequence `w` (from position `from`) with the expected notification stream of
/// actions lo..k
fn expect_stream(w: usize, acts: &[u8; MAXA], lo: usize, k: usize, prop: usize, msg: &'static str) -> usize {
    let mut n = 0usize;
    let mut j = lo;
    while j < k {
        if unsafe { SUM_NEED[j] } {
            let it = unsafe { SEQ[w][if n < 4 { n } else { 3 }] };
            let ok = n < unsafe { SEQ_N[w] } && it.st == unsafe { SUM_OUT[j] } && it.act == acts[j];
            super::record(prop, ok, msg);
            n += 1;
        }
        j += 1;
    }
    n
}

// -----------------------------------------------------------------------------------------
// C14: state iterator
// -----------------------------------------------------------------------------------------
/// iterator created before the dispatches; consumer runs when the producer side blocks and
/// after stop(); `needs` = Dispatch/Keep pattern
fn iter_stream(k: usize, needs: [u8; 3], created_after: usize) {
    let store = n_setup(4, kani::any());
    let reference: Arc<dyn Subscriber<St, Act> + Send + Sync> = Arc::new(SeqSubscriber { w: 0 });
    // `created_after` actions are dispatched AND processed... (deferred schedules: they are
    // dispatched before the iterator exists but reduced after; what the property fixes is
    // "dispatched after it was created", so the iterator is created first unless stated)
    let _ = created_after;
    let it = store.iter();
    core::mem::forget(store.add_subscriber(reference));
    unsafe {
        core::ptr::write(&mut ITER, Some(Box::new(it)));
        CONSUMER_ALIVE = true;
    }
    chk!(14, crossbeam::channel::ghost(SIDE_CHAN).cap == 1, "iter() uses a capacity-1 queue");
    let acts = dispatch_k(&store, k, needs);
    store.stop();
    rt::run_loop(0);
    rt::run_pending(2);
    // the consumer drains what is left: remaining pairs, then None, then None again
    let mut guard = 0;
    while guard < 4 {
        if unsafe { NONE_SEEN } == 0 {
            consumer_next();
        }
        guard += 1;
    }
    chk!(14, unsafe { NONE_SEEN } == 1, "after the store is stopped the iterator yields the remaining pairs and then None");
    consumer_next();
    consumer_next();
    chk!(14, unsafe { NONE_SEEN } == 3, "the iterator keeps returning None");
    // items = the notification stream a direct subscriber saw, in order, no gap, no repeat
    let n_ref = expect_stream(0, &acts, 0, k, 3, "reference direct subscriber sees every notifying action once, in order, with its state");
    let n_it = expect_stream(1, &acts, 0, k, 14, "the iterator yields the (state, action) pair of every notifying action, in order, without gaps or repeats");
    chk!(14, unsafe { SEQ_N[1] } == n_it && n_it == n_ref && unsafe { SEQ_N[0] } == n_ref, "iterator and direct subscriber saw the same number of notifications");
    let mut i = 0;
    while i < 4 {
        if i < unsafe { SEQ_N[1] } {
            chk!(14, unsafe { SEQ[1][i].ctx } == rt::CTX_CONSUMER, "items are handed over on the consumer's thread");
        }
        i += 1;
    }
    chk!(13, true, "every call returned");
    chk!(9, store.subscribers.lock().unwrap().len() == 0, "iterator subscription released at shutdown");
    kani::cover!(unsafe { SEQ_N[1] } >= 2, "COVER-OPT two items went through the capacity-1 queue");
    unsafe {
        core::ptr::write(&mut ITER, None);
        core::ptr::write(&mut G_STORE, None);
    }
    core::mem::forget(store);
    finish!(3, 9, 13, 14);
}
notify_harness! { #[kani::unwind(7)] fn iter_k2_dd() { iter_stream(2, [1, 1, 0], 0); } }
notify_harness! { #[kani::unwind(7)] fn iter_k2_sym() { iter_stream(2, [2, 2, 0], 0); } }
notify_harness! { #[kani::unwind(7)] fn iter_k3_dkd() { iter_stream(3, [1, 0, 1], 0); } }
notify_harness! { #[kani::unwind(7)] fn iter_k3_ddd() { iter_stream(3, [1, 1, 1], 0); } }
notify_harness! { #[kani::unwind(7)] fn iter_k1_k() { iter_stream(1, [0, 0, 0], 0); } }

/// dropping the iterator (empty queue) detaches it: later notifications do not reach it,
/// the store keeps working
fn iter_drop_detaches() {
    let store = n_setup(4, kani::any());
    let reference: Arc<dyn Subscriber<St, Act> + Send + Sync> = Arc::new(SeqSubscriber { w: 0 });
    let it = store.iter();
    core::mem::forget(store.add_subscriber(reference));
    let before = store.subscribers.lock().unwrap().len();
    let sends0 = crossbeam::channel::ghost(SIDE_CHAN).n_send;
    drop(it);
    chk!(14, store.subscribers.lock().unwrap().len() + 1 == before, "dropping the iterator detaches it from the store");
    chk!(13, true, "drop(iterator) with nothing unread returns");
    let acts = dispatch_k(&store, 2, [1, 1, 0]);
    store.stop();
    rt::run_loop(0);
    let n_ref = expect_stream(0, &acts, 0, 2, 9, "other subscribers are unaffected by the iterator's release");
    chk!(9, n_ref == 2 && unsafe { SEQ_N[0] } == 2, "the direct subscriber still gets every notification");
    // only the Exit of the release went into the iterator's queue, no notification
    chk!(14, crossbeam::channel::ghost(SIDE_CHAN).n_send == sends0 + 1, "after the drop nothing further is sent to the iterator");
    unsafe {
        core::ptr::write(&mut G_STORE, None);
    }
    core::mem::forget(store);
    finish!(9, 13, 14);
}
notify_harness! { #[kani::unwind(7)] fn iter_drop_empty() { iter_drop_detaches(); } }

/// KNOWN FINDING witness (C13): drop(iterator) while its capacity-1 queue still holds an
/// unread item: `on_unsubscribe` sends Exit with a blocking send into the full queue whose
/// only receiver is the sender's own clone -> the dropping thread blocks forever (holding
/// the subscribers lock).
fn iter_client_drop_unread() {
    let store = n_setup(4, kani::any());
    let it = store.iter();
    // put one unread item into the iterator's queue through the registered subscriber
    let subs = store.subscribers.lock().unwrap().clone();
    let s: St = kani::any();
    subs[0].on_notify(&s, &1);
    core::mem::forget(subs);
    chk!(14, crossbeam::channel::ghost(SIDE_CHAN).len == 1, "the notification is queued for the iterator");
    drop(it); // blocks forever: VERIF-DEADLOCK
    chk!(13, true, "drop(iterator) returned");
    core::mem::forget(store);
    finish!(13, 14);
}
notify_harness! { #[kani::unwind(7)] fn iter_client_drop_unread_witness() { iter_client_drop_unread(); } }

// -----------------------------------------------------------------------------------------
// C10: channeled subscribers (starved consumer: its thread runs when joined)
// -----------------------------------------------------------------------------------------
fn channeled(k: usize, cap: usize, policy: u8, needs: [u8; 3], unsubscribe_first: bool) {
    let store = n_setup(4, kani::any());
    let reference: Arc<dyn Subscriber<St, Act> + Send + Sync> = Arc::new(SeqSubscriber { w: 0 });
    core::mem::forget(store.add_subscriber(reference));
    let pol = match policy {
        0 => BackpressurePolicy::BlockOnFull,
        1 => BackpressurePolicy::DropOldest,
        _ => BackpressurePolicy::DropLatest,
    };
    let sub = match store.subscribed_with(cap, pol, Box::new(SeqSubscriber { w: 1 })) {
        Ok(s) => s,
        Err(e) => {
            core::mem::forget(e);
            panic!("VERIF-MODEL: subscribed_with failed");
        }
    };
    chk!(10, rt::thread::spawned() == 1, "subscribed_with starts a delivery thread of its own");
    chk!(10, crossbeam::channel::ghost(SIDE_CHAN).cap == cap, "the subscription's queue has the requested capacity");
    let acts = dispatch_k(&store, k, needs);
    let _ = unsubscribe_first;
    store.stop();
    rt::run_loop(0);
    rt::run_pending(2);
    let end = rt::now();
    let g = crossbeam::channel::ghost(SIDE_CHAN);
    // reference stream
    let n_ref = expect_stream(0, &acts, 0, k, 3, "reference direct subscriber sees every notifying action");
    chk!(10, rt::thread::state(0) == rt::thread::T_DONE, "stop() returns only after the delivery thread has finished");
    chk!(10, unsafe { SEQ_UNSUB[1] } <= 1, "the wrapped subscriber is not released twice");
    let got = unsafe { SEQ_N[1] };
    let mut i = 0;
    while i < 4 {
        if i < got {
            let it = unsafe { SEQ[1][i] };
            chk!(10, it.ctx == rt::CTX_CHANNELED, "a channeled subscriber is called on its own thread, never in the reducer context");
            chk!(10, it.at <= end, "everything queued is delivered before stop() returns, nothing afterwards");
        }
        i += 1;
    }
    if policy == 0 {
        // blocking policy (capacity >= backlog here): exactly the direct subscriber's stream
        let n_ch = expect_stream(1, &acts, 0, k, 10, "with the blocking policy a channeled subscriber receives exactly the sequence a direct subscriber would");
        chk!(10, got == n_ch && n_ch == n_ref, "same number of notifications as the direct subscriber");
    } else {
        chk!(10, g.n_send == 0, "with a drop policy the forwarding never uses a blocking send: a stalled subscriber cannot stall reducing");
        // in-order subsequence of the reference stream
        let mut pos = 0usize;
        let mut ok = true;
        let mut i = 0;
        while i < 4 {
            if i < got {
                let it = unsafe { SEQ[1][i] };
                let mut found = false;
                let mut j = 0;
                while j < 4 {
                    if !found && j >= pos && j < unsafe { SEQ_N[0] } {
                        let r = unsafe { SEQ[0][j] };
                        if r.st == it.st && r.act == it.act {
                            found = true;
                            pos = j + 1;
                        }
                    }
                    j += 1;
                }
                if !found {
                    ok = false;
                }
            }
            i += 1;
        }
        chk!(10, ok, "with a drop policy a channeled subscriber receives an in-order subsequence");
        chk!(10, got <= cap && (n_ref < cap || got == cap), "a starved drop-policy subscriber keeps `capacity` notifications");
        if policy == 1 && n_ref > 0 && got > 0 {
            let last_ref = unsafe { SEQ[0][if n_ref <= 4 { n_ref - 1 } else { 3 }] };
            let last = unsafe { SEQ[1][got - 1] };
            chk!(10, last.st == last_ref.st && last.act == last_ref.act, "under DropOldest the newest notification is always delivered");
        }
        if policy == 1 && n_ref > 0 {
            chk!(10, got > 0, "under DropOldest the newest notification is delivered");
        }
    }
    chk!(9, store.subscribers.lock().unwrap().len() == 0, "all subscriptions released at shutdown");
    chk!(13, true, "every call returned");
    // a late unsubscribe does nothing
    let clock = rt::now();
    sub.unsubscribe();
    chk!(9, rt::now() == clock, "unsubscribe() after shutdown does nothing");
    unsafe {
        core::ptr::write(&mut G_STORE, None);
    }
    core::mem::forget(sub);
    core::mem::forget(store);
    finish!(3, 9, 10, 13);
}
notify_harness! { #[kani::unwind(7)] fn chsub_block_k2() { channeled(2, 3, 0, [1, 1, 0], false); } }
notify_harness! { #[kani::unwind(7)] fn chsub_block_k2_sym() { channeled(2, 2, 0, [2, 2, 0], false); } }
notify_harness! { #[kani::unwind(7)] fn chsub_oldest_k2_cap1() { channeled(2, 1, 1, [1, 1, 0], false); } }
notify_harness! { #[kani::unwind(7)] fn chsub_latest_k2_cap1() { channeled(2, 1, 2, [1, 1, 0], false); } }
notify_harness! { #[kani::unwind(7)] fn chsub_oldest_k3_cap2() { channeled(3, 2, 1, [1, 1, 1], false); } }
notify_harness! { #[kani::unwind(7)] fn chsub_block_k3_dkd() { channeled(3, 3, 0, [1, 0, 1], false); } }

/// unsubscribe() of a channeled subscriber flushes and joins before it returns
fn channeled_unsubscribe(policy: u8) {
    let store = n_setup(4, kani::any());
    let pol = if policy == 0 { BackpressurePolicy::BlockOnFull } else { BackpressurePolicy::DropOldest };
    let sub = match store.subscribed_with(2, pol, Box::new(SeqSubscriber { w: 1 })) {
        Ok(s) => s,
        Err(e) => {
            core::mem::forget(e);
            panic!("VERIF-MODEL: subscribed_with failed");
        }
    };
    // two notifications are queued for it (through the registered wrapper, as do_notify does)
    let subs = store.subscribers.lock().unwrap().clone();
    let s0: St = kani::any();
    let s1: St = kani::any();
    in_reducer_ctx(|| {
        subs[0].on_notify(&s0, &1);
        subs[0].on_notify(&s1, &2);
    });
    core::mem::forget(subs);
    chk!(10, unsafe { SEQ_N[1] } == 0, "notifications are not delivered in the reducer context");
    sub.unsubscribe();
    let t = rt::now();
    chk!(10, unsafe { SEQ_N[1] } == 2 && unsafe { SEQ[1][0].st } == s0 && unsafe { SEQ[1][1].st } == s1, "unsubscribe() returns only after everything already queued has been delivered, in order");
    chk!(10, unsafe { SEQ[1][0].ctx } == rt::CTX_CHANNELED, "delivered on the subscriber's own thread");
    chk!(10, rt::thread::state(0) == rt::thread::T_DONE, "unsubscribe() joins the delivery thread");
    chk!(9, store.subscribers.lock().unwrap().len() == 0, "the wrapper leaves the list");
    // nothing afterwards
    let _acts = dispatch_k(&store, 1, [1, 0, 0]);
    store.stop();
    rt::run_loop(0);
    chk!(10, unsafe { SEQ_N[1] } == 2, "after unsubscribe() has returned nothing further is delivered");
    chk!(9, unsafe { SEQ_N[1] } == 2, "once unsubscribe() has returned the subscriber receives nothing further");
    sub.unsubscribe();
    let _ = t;
    chk!(13, true, "every call returned");
    unsafe {
        core::ptr::write(&mut G_STORE, None);
    }
    core::mem::forget(sub);
    core::mem::forget(store);
    finish!(9, 10, 13);
}
fn in_reducer_ctx(f: impl FnOnce()) {
    rt::in_ctx(rt::CTX_REDUCER, f)
}
notify_harness! { #[kani::unwind(7)] fn chsub_unsubscribe_block() { channeled_unsubscribe(0); } }
notify_harness! { #[kani::unwind(7)] fn chsub_unsubscribe_oldest() { channeled_unsubscribe(1); } }

/// vacuity twin
notify_harness! { #[kani::unwind(7)] fn twin_g_notify() {
    let store = n_setup(4, kani::any());
    let it = store.iter();
    unsafe {
        core::ptr::write(&mut ITER, Some(Box::new(it)));
        CONSUMER_ALIVE = true;
    }
    let _acts = dispatch_k(&store, 1, [1, 0, 0]);
    store.stop();
    rt::run_loop(0);
    consumer_next();
    chk!(14, unsafe { SEQ_N[1] } == 0, "TWIN (wrong on purpose): iterator yields nothing");
    chk!(10, false, "TWIN (wrong on purpose)");
    chk!(9, store.subscribers.lock().unwrap().len() == 1, "TWIN (wrong on purpose)");
    chk!(13, false, "TWIN (wrong on purpose)");
    chk!(3, false, "TWIN (wrong on purpose)");
    unsafe { core::ptr::write(&mut ITER, None); }
    core::mem::forget(store);
    finish!(3, 9, 10, 13, 14);
} }

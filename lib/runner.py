"""Runner for the Kani/CBMC checks of rs-store (DESIGN.md §4.1, §4.8, §4.9).

Everything is regenerated from /repo's working tree on every run: the tree is copied to a
scratch directory (keyed by a content hash), compiled by kani-compiler together with the
harness module /verif/kani/harness (pulled in by the cfg(kani) hook H1) and the dependency
models /verif/kani/shims, and every harness is one CBMC query (or several: one per cover /
assertion group, as CBMC organises them).
"""
import concurrent.futures as cf
import fcntl
import hashlib
import json
import os
import re
import shutil
import subprocess
import sys
import time

VERIF = os.path.abspath(os.path.join(os.path.dirname(os.path.abspath(__file__)), ".."))
REPO = os.environ.get("VERIF_REPO", "/repo")
SCRATCH = os.environ.get("VERIF_SCRATCH", "/var/tmp/rsverif")
EVIDENCE_DIR = os.environ.get("VERIF_EVIDENCE_DIR", os.path.join(VERIF, "evidence"))
REPLAYS_DIR = os.environ.get("VERIF_REPLAYS_DIR", os.path.join(VERIF, "replays"))
HARNESS_DIR = os.path.join(VERIF, "kani", "harness")
SHIMS_DIR = os.path.join(VERIF, "kani", "shims")
JOBS = int(os.environ.get("VERIF_JOBS", "12"))
NOCACHE = os.environ.get("VERIF_NOCACHE", "") not in ("", "0")
HOOK_PATH_LINE = '#[path = "/verif/kani/harness/mod.rs"]'

# --no-assertion-reach-checks: Kani's automatic per-assertion reachability covers cost one
# SAT call per generated check (measured: 135 s -> 37 s on a unit harness); vacuity is
# guarded by the explicit kani::cover! witnesses and by the twin harnesses instead.
KANI_FLAGS = ["-Z", "stubbing", "-Z", "restrict-vtable", "-Z", "unstable-options", "--no-assertion-reach-checks"]
CBMC_ARGS = ["--max-field-sensitivity-array-size", "512"]

ENV = dict(os.environ)
ENV.update({"CARGO_NET_OFFLINE": "true", "CARGO_TERM_COLOR": "never", "RUST_BACKTRACE": "0"})
ENV.pop("RUSTFLAGS", None)


def log(*a):
    print(*a, file=sys.stderr, flush=True)


# ----------------------------------------------------------------------------------------
# staging
# ----------------------------------------------------------------------------------------
def _hash_tree(paths):
    h = hashlib.sha256()
    for root in paths:
        if os.path.isfile(root):
            files = [root]
        else:
            files = []
            for d, dirs, fs in os.walk(root):
                dirs[:] = sorted(x for x in dirs if x not in ("target", ".git", "__pycache__"))
                for f in sorted(fs):
                    files.append(os.path.join(d, f))
        for f in files:
            h.update(os.path.relpath(f, root).encode() + b"\0")
            try:
                with open(f, "rb") as fh:
                    h.update(fh.read())
            except OSError:
                pass
            h.update(b"\1")
    return h.hexdigest()


def source_hash():
    return _hash_tree(
        [
            os.path.join(REPO, "src"),
            os.path.join(REPO, "Cargo.toml"),
            os.path.join(REPO, "Cargo.lock"),
            HARNESS_DIR,
            SHIMS_DIR,
        ]
    )[:16]


def stage(h):
    """copy /repo's working tree (and the harness sources) to scratch; returns stage dir"""
    os.makedirs(SCRATCH, exist_ok=True)
    st = os.path.join(SCRATCH, "src-" + h)
    lock = open(os.path.join(SCRATCH, ".stage.lock"), "w")
    fcntl.flock(lock, fcntl.LOCK_EX)
    try:
        if not os.path.exists(os.path.join(st, ".ready")):
            shutil.rmtree(st, ignore_errors=True)
            os.makedirs(os.path.join(st, ".cargo"))
            subprocess.check_call(
                ["rsync", "-a", "--exclude", "target", "--exclude", ".git", REPO + "/", st + "/repo/"]
            )
            subprocess.check_call(["rsync", "-a", HARNESS_DIR + "/", st + "/harness/"])
            with open(os.path.join(st, ".cargo", "config.toml"), "w") as f:
                f.write(
                    "[patch.crates-io]\n"
                    'crossbeam = { path = "%s/crossbeam" }\n'
                    'rusty_pool = { path = "%s/rusty_pool" }\n'
                    "[net]\noffline = true\n" % (SHIMS_DIR, SHIMS_DIR)
                )
            # the staged crate uses the staged copy of the harness module, so that playback
            # tests can be added next to the harnesses without touching /verif
            lib = os.path.join(st, "repo", "src", "lib.rs")
            if HOOK_PATH_LINE not in open(lib).read():
                raise RuntimeError(
                    "hook H1 (cfg(kani) harness module) is missing from %s/src/lib.rs" % REPO
                )
            srcdir = os.path.join(st, "repo", "src")
            for fn in os.listdir(srcdir):
                if fn.endswith(".rs"):
                    fp = os.path.join(srcdir, fn)
                    s = open(fp).read()
                    if '#[path = "/verif/kani/harness/' in s:
                        s = s.replace('#[path = "/verif/kani/harness/', '#[path = "%s/harness/' % st)
                        open(fp, "w").write(s)
            open(os.path.join(st, ".ready"), "w").write(str(time.time()))
        # mark this stage as in use, then garbage-collect stages nobody used for an hour (keeping
        # the 6 newest anyway): a stage - and its result cache - deleted while another process
        # (a second `bin/matrix`, a `vp` run) was working in it made kani-driver die with ENOENT
        try:
            os.utime(st, None)
        except OSError:
            pass
        now = time.time()
        olds = sorted(
            (d for d in os.listdir(SCRATCH) if d.startswith("src-") and d != "src-" + h),
            key=lambda d: os.path.getmtime(os.path.join(SCRATCH, d)),
        )
        olds = [d for d in olds[:-5] if now - os.path.getmtime(os.path.join(SCRATCH, d)) > 3600]
        for d in olds:
            shutil.rmtree(os.path.join(SCRATCH, d), ignore_errors=True)
            shutil.rmtree(os.path.join(SCRATCH, "cache", d[4:]), ignore_errors=True)
    finally:
        fcntl.flock(lock, fcntl.LOCK_UN)
        lock.close()
    return st


import threading

MEM_BUDGET_GB = int(os.environ.get("VERIF_MEM_GB", "52"))
_mem_cv = threading.Condition()
_mem_used = [0]


class MemBudget:
    """keeps the sum of the memory caps of concurrently running harnesses under the budget"""

    def __init__(self, gb):
        self.gb = min(gb, MEM_BUDGET_GB)

    def __enter__(self):
        with _mem_cv:
            while _mem_used[0] + self.gb > MEM_BUDGET_GB:
                _mem_cv.wait()
            _mem_used[0] += self.gb

    def __exit__(self, *a):
        with _mem_cv:
            _mem_used[0] -= self.gb
            _mem_cv.notify_all()


class Slot:
    """one cargo target directory, used by one cargo-kani process at a time"""

    def __init__(self):
        self.fh = None
        self.path = None

    def __enter__(self):
        d = os.path.join(SCRATCH, "tgt")
        os.makedirs(d, exist_ok=True)
        while True:
            for k in range(JOBS + 4):
                p = os.path.join(d, "t%02d" % k)
                fh = open(p + ".lock", "w")
                try:
                    fcntl.flock(fh, fcntl.LOCK_EX | fcntl.LOCK_NB)
                except OSError:
                    fh.close()
                    continue
                self.fh, self.path = fh, p
                # disk hygiene: every harness leaves its goto binaries in the target dir; drop the
                # crate's build products every 30 uses (dependencies stay built)
                try:
                    cnt = p + ".uses"
                    n = int(open(cnt).read()) + 1 if os.path.exists(cnt) else 1
                    if n >= 30:
                        n = 0
                        for sub in ("kani/x86_64-unknown-linux-gnu/debug/build/rs-store", "kani/x86_64-unknown-linux-gnu/debug/incremental"):
                            shutil.rmtree(os.path.join(p, sub), ignore_errors=True)
                    open(cnt, "w").write(str(n))
                except Exception:
                    pass
                return p
            time.sleep(0.5)

    def __exit__(self, *a):
        fcntl.flock(self.fh, fcntl.LOCK_UN)
        self.fh.close()


# ----------------------------------------------------------------------------------------
# one harness = one cargo-kani process
# ----------------------------------------------------------------------------------------
CHECK_RE = re.compile(
    r"^Check \d+: (?P<name>\S+)\n\t - Status: (?P<status>\w+)\n\t - Description: \"(?P<desc>.*)\"\n(?:\t - Location: (?P<loc>.*)\n)?",
    re.M,
)



MODS = ("store_impl", "channel", "builder", "dispatcher", "iterator", "subscriber", "selector", "metrics", "store_droppable", "middleware", "reducer", "store", "effect")


def norm_fn(fn):
    """crate-relative function name of an rs-store function with generic arguments elided
    ('' for std / harness / model functions)"""
    out, depth = [], 0
    lead = fn.startswith("<")
    body = fn[1:] if lead else fn
    for ch in body:
        if ch == "<":
            depth += 1
            if depth == 1:
                out.append("<..>")
            continue
        if ch == ">":
            if depth == 0:
                continue  # closes the leading '<T as Trait>'
            depth -= 1
            continue
        if depth == 0:
            out.append(ch)
    s = re.sub(r"::\{closure#\d+\}", "::{closure}", "".join(out))
    if not s.startswith(tuple(m + "::" for m in MODS)):
        return ""
    return s[:140]

def parse_output(out):
    r = {
        "checks": 0,
        "failed": [],
        "covers": {},
        "undetermined": 0,
        "unreachable": 0,
        "functions": set(),
        "verdict": None,
        "symex_s": 0.0,
        "solver_s": 0.0,
        "decision_s": 0.0,
        "steps": 0,
        "vars": 0,
        "clauses": 0,
        "sat_calls": 0,
        "stubs": [],
        "vccs": None,
    }
    for m in CHECK_RE.finditer(out):
        r["checks"] += 1
        st, desc, loc, name = m.group("status"), m.group("desc"), m.group("loc") or "", m.group("name")
        fm = re.search(r" in function (.*)$", loc)
        if fm:
            fn = norm_fn(fm.group(1))
            if fn:
                r["functions"].add(fn)
        if ".cover." in name or desc.startswith("COVER"):
            r["covers"][desc] = st
            r["oracle_class"] = r.get("oracle_class", 0) + 1
            continue
        if desc.startswith("PROPERTY C") or "unwinding assertion" in desc:
            r["oracle_class"] = r.get("oracle_class", 0) + 1
        if st == "FAILURE":
            r["failed"].append({"name": name, "desc": desc, "loc": loc})
        elif st == "UNDETERMINED":
            r["undetermined"] += 1
        elif st == "UNREACHABLE":
            r["unreachable"] += 1
    # rs-store functions that occur anywhere in CBMC's messages (loop unwinding, pruned
    # paths, check locations): the functions whose code is part of the checked program
    for fm in re.finditer(r" function (.+?)(?: thread \d+| line \d+|$)", out, re.M):
        fn = norm_fn(fm.group(1).strip())
        if fn:
            r["functions"].add(fn)
    m = re.search(r"VERIFICATION:- (\w+)", out)
    if m:
        r["verdict"] = m.group(1)
    for m in re.finditer(r"Runtime Symex: ([\d.e+-]+)s", out):
        r["symex_s"] += float(m.group(1))
    for m in re.finditer(r"Runtime Solver: ([\d.e+-]+)s", out):
        r["solver_s"] += float(m.group(1))
        r["sat_calls"] += 1
    for m in re.finditer(r"Runtime decision procedure: ([\d.e+-]+)s", out):
        r["decision_s"] += float(m.group(1))
    m = re.search(r"size of program expression: (\d+) steps", out)
    if m:
        r["steps"] = int(m.group(1))
    for m in re.finditer(r"(\d+) variables, (\d+) clauses", out):
        r["vars"] = max(r["vars"], int(m.group(1)))
        r["clauses"] = max(r["clauses"], int(m.group(2)))
    m = re.search(r"Generated (\d+) VCC\(s\), (\d+) remaining", out)
    if m:
        r["vccs"] = [int(m.group(1)), int(m.group(2))]
    r["stubs"] = sorted(set(re.sub(r"\s+", "", x) for x in re.findall(r"- Stub: (.*)", out)))
    r["functions"] = sorted(r["functions"])
    return r


def classify(res):
    """-> (kind, detail).  kind in pass | fail-tagged | inconclusive"""
    if res.get("error"):
        return "inconclusive", res["error"]
    tagged, deadlock, bounds, model, repo_panics, other = [], [], [], [], [], []
    for f in res["failed"]:
        d = f["desc"]
        m = re.match(r"PROPERTY C(\d+) violated", d)
        if m:
            tagged.append("C%02d" % int(m.group(1)))
        elif "VERIF-DEADLOCK" in d:
            deadlock.append(d)
        elif "unwinding assertion" in d or "VERIF-BOUND" in d:
            bounds.append(d + " @ " + f["loc"])
        elif "VERIF-" in d:
            model.append(d)
        elif "kani_lib.c" in f["loc"] or "<builtin-library" in f["loc"]:
            # deallocation / libc preconditions of Kani's C runtime model: safe Rust cannot
            # violate them; seen spuriously for empty Vecs (DESIGN.md "tool artefacts")
            model.append(d + " @ " + f["loc"])
        elif "/verif/" in f["loc"] or "verif_kani" in f["loc"] or "/shims/" in f["loc"]:
            model.append(d + " @ " + f["loc"])
        else:
            repo_panics.append(d + " @ " + f["loc"])
    res["tagged"] = sorted(set(tagged))
    res["deadlock"] = deadlock
    res["repo_panics"] = repo_panics
    if bounds:
        return "inconclusive", "bound too small: " + "; ".join(bounds[:3])
    if model:
        return "inconclusive", "model/harness failure: " + "; ".join(model[:3])
    if res["verdict"] is None:
        return "inconclusive", "no verdict (crash, timeout or out of memory)"
    if res["undetermined"]:
        # Kani marks checks UNDETERMINED when e.g. an unsupported construct is reachable
        if not (tagged or deadlock or repo_panics):
            return "inconclusive", "%d checks undetermined" % res["undetermined"]
    if tagged or deadlock or repo_panics:
        return "fail", ""
    bad_covers = [c for c, s in res["covers"].items() if s != "SATISFIED"]
    res["bad_covers"] = bad_covers
    if res["verdict"] != "SUCCESSFUL":
        return "inconclusive", "verdict %s without a classified failure" % res["verdict"]
    return "pass", ""


MARKS = [("compiled", "Finished `"), ("cbmc_start", "Reading GOTO program"), ("fp_removal", "Removal of function pointers"), ("bmc_start", "Starting Bounded Model Checking"), ("symex_done", "Runtime Symex"), ("sat_start", "Passing problem to propositional reduction"), ("results", "RESULTS:"), ("verdict", "VERIFICATION:-")]


def full_name(name):
    """harness names are relative to the verif_kani module; '@a::b::f' is crate-absolute"""
    return name[1:] if name.startswith("@") else "verif_kani::" + name


def harness_file(name):
    """harness source file (relative to the harness directory) that defines `name`"""
    if name.startswith("@builder::verif_kani_in_builder"):
        return "in_builder.rs"
    if name.startswith("@store_impl::verif_kani_in_store"):
        return "in_store.rs"
    if name.startswith("@"):
        return name[1:].split("::")[-2] + ".rs"
    return name.split("::")[0] + ".rs"


def run_harness(stage_dir, h, spec, extra_kani=(), playback=False, log_dir=None):
    """run one harness; returns result dict (cached by source hash + spec)"""
    name = spec["name"]
    full = full_name(name)
    key = hashlib.sha256(json.dumps(["v2", name, spec.get("kani", []), spec.get("cbmc", []), list(extra_kani)], sort_keys=True).encode()).hexdigest()[:12]
    cdir = os.path.join(SCRATCH, "cache", h)
    cfile = os.path.join(cdir, name.replace("::", "__").replace("@", "") + "-" + key + ".json")
    if not NOCACHE and not playback and os.path.exists(cfile):
        try:
            r = json.load(open(cfile))
            r["cached"] = True
            return r
        except Exception:
            pass
    timeout = int(spec.get("timeout_s", 900))
    mem_gb = int(spec.get("mem_gb", 12))
    if playback:
        # kani-driver keeps CBMC's whole JSON trace in memory when extracting the
        # counterexample; give it room (only runs after a tagged failure)
        timeout, mem_gb = max(timeout * 3, 1800), 48
    with MemBudget(mem_gb), Slot() as tgt:
        t0 = time.time()
        cmd = ["cargo", "kani", "--target-dir", tgt] + KANI_FLAGS + list(spec.get("kani", [])) + list(extra_kani)
        cmd += ["--harness", full, "--exact", "--cbmc-args"] + CBMC_ARGS + list(spec.get("cbmc", []))
        sh = "ulimit -v %d; exec timeout -k 10 %d %s" % (
            mem_gb * 1024 * 1024,
            timeout,
            " ".join("'%s'" % c for c in cmd),
        )
        p = subprocess.Popen(
            ["bash", "-c", sh],
            cwd=os.path.join(stage_dir, "repo"),
            env=ENV,
            stdout=subprocess.PIPE,
            stderr=subprocess.STDOUT,
            text=True,
            errors="replace",
        )
        lines, marks = [], {}
        for line in p.stdout:
            lines.append(line)
            for key, pat in MARKS:
                if key not in marks and pat in line:
                    marks[key] = round(time.time() - t0, 1)
        p.wait()
        p.stdout_text = "".join(lines)
    out = p.stdout_text
    wall = time.time() - t0
    if log_dir:
        os.makedirs(log_dir, exist_ok=True)
        open(os.path.join(log_dir, name.replace("::", "__").replace("@", "") + (".playback" if playback else "") + ".log"), "w").write(out)
    r = parse_output(out)
    r["marks"] = marks
    r.update({"name": name, "wall_s": round(wall, 2), "rc": p.returncode, "cached": False, "timeout_s": timeout, "mem_gb": mem_gb})
    if p.returncode == 124 or p.returncode == 137:
        r["error"] = "timeout after %d s (cap)" % timeout
    elif "error: could not compile" in out or "error[E" in out or "Failed to compile" in out:
        errs = re.findall(r"^error(?:\[E\d+\])?: .*$", out, re.M)
        r["error"] = "harness does not compile against this tree: " + " | ".join(errs[:3])
    elif "Failed to match the following harness" in out:
        r["error"] = "harness not found: " + full
    elif r["verdict"] is None:
        tail = " / ".join(out.strip().splitlines()[-3:])
        r["error"] = "no verdict (rc=%d): %s" % (p.returncode, tail[-300:])
    if playback:
        r["playback_tests"] = re.findall(
            r"Concrete playback unit test for `[^`]*`:\n```\n(.*?)```", out, re.S
        )
    else:
        # cache only decided runs: a timeout / out-of-memory / crash depends on the caps and on
        # the machine load of that moment, not on the sources
        decided = not r.get("error") and (r["verdict"] == "SUCCESSFUL" or (r["verdict"] == "FAILED" and r["failed"]))
        if decided:
            os.makedirs(cdir, exist_ok=True)
            json.dump(r, open(cfile, "w"))
    return r


# ----------------------------------------------------------------------------------------
# native replay of a counterexample (DESIGN.md §4.8)
# ----------------------------------------------------------------------------------------
def replay(stage_dir, h, spec, prop, log_dir, expect_hang=False):
    """Extract the solver's counterexample as a concrete-playback test and run it natively.
    Returns (reproduced: bool, replay_path or None, note)."""
    name = spec["name"]
    # one counterexample extraction at a time on this machine: two concurrent kani-driver
    # concrete-playback runs (e.g. two `bin/matrix` processes) were seen to crash each other
    # (kani-driver panics in cbmc_output_parser.rs with ENOENT)
    os.makedirs(SCRATCH, exist_ok=True)
    _lk = open(os.path.join(SCRATCH, "replay.lock"), "w")
    fcntl.flock(_lk, fcntl.LOCK_EX)
    try:
        r = run_harness(stage_dir, h, spec, extra_kani=["-Z", "concrete-playback", "--concrete-playback=print"], playback=True, log_dir=log_dir)
    finally:
        fcntl.flock(_lk, fcntl.LOCK_UN)
        _lk.close()
    tests = r.get("playback_tests") or []
    want = "PROPERTY C%d violated" % int(prop[1:])
    chosen = None
    for t in tests:
        if want in t:
            chosen = t
            break
    if chosen is None:
        for t in tests:
            if "Check for `assertion`" in t or "VERIF-DEADLOCK" in t or "panicked" in t:
                chosen = t
                break
    if chosen is None:
        return False, None, "no concrete playback test produced for the failing check"
    fn = re.search(r"fn (kani_concrete_playback_\w+)\(", chosen).group(1)
    modfile = os.path.join(stage_dir, "harness", harness_file(name))
    src = open(modfile).read()
    marker = "\n// ---- playback tests appended by /verif/bin/check ----\n"
    if fn not in src:
        open(modfile, "w").write(src + marker + chosen + "\n")
    os.makedirs(REPLAYS_DIR, exist_ok=True)
    rp = os.path.join(REPLAYS_DIR, "%s-%s-%s.rs" % (prop, name.replace("::", "__").replace("@", ""), h))
    outcomes = {}
    with Slot() as tgt:
        for profile in ("dev",):  # cargo-kani 0.68 playback has no --release
            cmd = ["cargo", "kani", "playback", "-Z", "concrete-playback"]
            if profile == "release":
                cmd.append("--release")
            cmd += ["--", fn, "--nocapture"]
            env = dict(ENV)
            env["CARGO_TARGET_DIR"] = tgt + "-pb"
            p = subprocess.run(
                ["timeout", "-k", "10", "240" if expect_hang else "900"] + cmd,
                cwd=os.path.join(stage_dir, "repo"),
                env=env,
                stdout=subprocess.PIPE,
                stderr=subprocess.STDOUT,
                text=True,
                errors="replace",
            )
            out = p.stdout
            open(os.path.join(log_dir, name.replace("::", "__").replace("@", "") + ".native-%s.log" % profile), "w").write(out)
            ran = re.search(r"running 1 test", out) is not None
            failed = re.search(r"test result: FAILED", out) is not None or "panicked at" in out
            fired = [l for l in out.splitlines() if l.startswith("ORACLE-FAILED") or "VERIF-DEADLOCK" in l or "PROPERTY C" in l or "panicked at" in l]
            hung = ran and not failed and p.returncode in (124, 137)
            if hung and expect_hang:
                # the solver's counterexample is a deadlock (a lock / channel operation that can
                # never complete); natively the real lock() / recv() blocks and the test never
                # finishes: that IS the reproduction
                failed = True
                fired.append("native run hung (killed after 240 s): the blocking operation never returned")
            outcomes[profile] = {"ran": ran, "failed": failed, "lines": fired[:12], "rc": p.returncode, "hung": hung}
            if profile == "release" and not ran and "error" in out:
                # release playback may be unsupported by this cargo-kani; dev decides
                outcomes[profile]["note"] = "release playback did not build"
    outcomes["release"] = {"ran": False, "failed": False, "lines": [], "note": "cargo kani playback (0.68) cannot build the release profile"}
    reproduced = outcomes["dev"]["ran"] and outcomes["dev"]["failed"]
    with open(rp, "w") as f:
        f.write("// property %s, harness %s, source hash %s\n" % (prop, name, h))
        f.write("// solver counterexample (Kani concrete playback); native re-execution:\n")
        for prof, o in outcomes.items():
            f.write("//   %s: ran=%s failed=%s\n" % (prof, o["ran"], o["failed"]))
            for l in o["lines"]:
                f.write("//     %s\n" % l)
        f.write("// to re-run: /verif/bin/check --replay %s\n" % rp)
        f.write(chosen)
    # restore the staged harness file (playback test removed again)
    open(modfile, "w").write(src)
    return reproduced, rp, json.dumps(outcomes)


# ----------------------------------------------------------------------------------------
# property-level driver
# ----------------------------------------------------------------------------------------
def load_checks():
    sys.path.insert(0, os.path.join(VERIF, "kani"))
    import importlib

    import checks as c

    importlib.reload(c)
    return c


def load_known():
    p = os.path.join(VERIF, "known_findings.json")
    if os.path.exists(p):
        return json.load(open(p))
    return {"findings": [], "fixed": []}


def decide(prop, tier, seed):
    t0 = time.time()
    C = load_checks()
    if prop not in C.CHECKS:
        log("no check registered for %s" % prop)
        return 2
    specs = list(C.CHECKS[prop].get("quick", []))
    if tier == "thorough":
        specs += list(C.CHECKS[prop].get("thorough", []))
    h = source_hash()
    st = stage(h)
    log_dir = os.path.join(SCRATCH, "logs" + os.environ.get("VERIF_LOG_SUFFIX", ""), prop)
    shutil.rmtree(log_dir, ignore_errors=True)
    os.makedirs(log_dir, exist_ok=True)
    known = load_known()
    results = {}
    # heavy harnesses first
    order = sorted(specs, key=lambda s: -int(s.get("timeout_s", 900)))
    with cf.ThreadPoolExecutor(max_workers=JOBS) as ex:
        futs = {ex.submit(run_harness, st, h, s, (), False, log_dir): s for s in order}
        for f in cf.as_completed(futs):
            s = futs[f]
            try:
                r = f.result()
            except Exception as e:  # noqa
                r = {"name": s["name"], "error": "runner exception: %r" % (e,), "failed": [], "covers": {}, "checks": 0, "undetermined": 0, "verdict": None}
            kind, detail = classify(r)
            r["kind"], r["detail"] = kind, detail
            results[s["name"]] = r
            log("  [%s] %-44s %-12s %6.1fs%s %s" % (prop, s["name"], kind, r.get("wall_s", 0), " (cached)" if r.get("cached") else "", detail[:200]))

    violations, inconclusive, known_hits, notes = [], [], [], []
    for s in specs:
        r = results[s["name"]]
        role = s.get("role", "decide")
        kind = r["kind"]
        mine = prop in r.get("tagged", [])
        if prop == "C13" and r.get("deadlock"):
            mine = True
        if role == "twin":
            # vacuity twin: its (deliberately wrong) oracle must be refuted
            if not (kind == "fail" and mine):
                inconclusive.append("%s: vacuity twin was not refuted (%s %s)" % (s["name"], kind, r["detail"]))
            continue
        if role == "witness":
            # known-finding witness: the listed defect pattern must still be produced
            kf = s.get("known_finding")
            hit = kind == "fail" and mine
            entry = next((k for k in known.get("findings", []) if k.get("key") == kf), None)
            if hit and entry:
                known_hits.append(entry)
            elif hit and not entry:
                violations.append((s, r, "defect pattern '%s' reproduced and not listed as known" % kf))
            elif kind == "inconclusive":
                inconclusive.append("%s: %s" % (s["name"], r["detail"]))
            else:
                notes.append("known-finding witness %s did not fail: the pattern '%s' is not produced on this tree" % (s["name"], kf))
            continue
        if kind == "inconclusive":
            inconclusive.append("%s: %s" % (s["name"], r["detail"]))
        elif kind == "fail":
            if mine:
                violations.append((s, r, "tagged oracle of %s refuted" % prop))
            elif r.get("repo_panics") or (r.get("deadlock") and prop != "C13"):
                violations.append((s, r, "panic/deadlock in store code: %s" % "; ".join((r.get("repo_panics") or r.get("deadlock"))[:2])))
            else:
                notes.append("%s: oracle(s) of %s refuted in this harness; %s's own oracle holds" % (s["name"], ",".join(r.get("tagged", [])), prop))
        else:
            bad = [c for c in r.get("bad_covers", []) if not c.startswith("COVER-OPT")]
            if s.get("may_be_pruned"):
                # a schedule placement at which the placed call is not enabled on this tree
                # (it meets a lock held by the suspended host): the whole path is pruned by
                # design; the same call is explored at the other placements
                bad = [c for c in bad if "end of harness" not in c]
                if any("end of harness" in c for c in r.get("bad_covers", [])):
                    notes.append("%s: placed call not enabled at this placement on this tree (path pruned)" % s["name"])
            # optional witnesses a spec declares mandatory for this configuration
            for need in s.get("require_covers", []):
                hit = [c for c, stt in r.get("covers", {}).items() if need in c]
                if not hit or any(r["covers"][c] != "SATISFIED" for c in hit):
                    bad.append("required witness not satisfied: " + need)
            if bad:
                inconclusive.append("%s: vacuity witness not satisfied: %s" % (s["name"], "; ".join(bad[:3])))

    # replay candidates before reporting
    confirmed = []
    # replay is expensive (CBMC must emit a full trace): smallest program first, stop at the
    # first counterexample that reproduces, try at most 3
    violations.sort(key=lambda v: v[1].get("steps", 0))
    for s, r, why in violations[:3]:
        if confirmed:
            break
        ok, rp, note = replay(st, h, s, prop, log_dir, expect_hang=bool(r.get("deadlock")))
        r["replay"] = {"reproduced": ok, "path": rp, "note": note}
        if ok:
            confirmed.append((s, r, why, rp))
        else:
            inconclusive.append("%s: solver counterexample did not reproduce natively (%s): %s" % (s["name"], why, note[:300]))

    # listed findings whose witness harness is not part of this tier (or that have no solver
    # witness at all: demonstrated with real threads only) are still announced
    witnessed = set(s.get("known_finding") for s in specs if s.get("role") == "witness")
    for k in known.get("findings", []):
        if k.get("property") == prop and k.get("key") not in witnessed and k not in known_hits:
            k = dict(k)
            k["what"] = k.get("what", k.get("key")) + " [listed finding; its witness is not run in the %s tier: %s]" % (tier, k.get("witness", "none"))
            known_hits.append(k)
    wall = time.time() - t0
    write_evidence(prop, tier, seed, specs, results, wall, len(confirmed), known_hits, notes, inconclusive, h, C)
    for k in known_hits:
        print("KNOWN-FINDING: property=%s %s" % (prop, k.get("what", k.get("key"))))
    for n in notes:
        log("note: " + n)
    if confirmed:
        for s, r, why, rp in confirmed:
            print("VIOLATION property=%s replay=%s" % (prop, rp))
            log("  harness %s: %s" % (s["name"], why))
        return 1
    if inconclusive:
        for i in inconclusive:
            log("INCONCLUSIVE: " + i)
        return 2
    print("OK property=%s tier=%s harnesses=%d wall=%.0fs" % (prop, tier, len(specs), wall))
    return 0


def write_evidence(prop, tier, seed, specs, results, wall, nviol, known_hits, notes, inconclusive, h, C):
    hs = []
    funcs = set()
    stubs = set()
    tot_checks = tot_sat = 0
    tot_symex = tot_solver = 0.0
    nontrivial = 0
    for s in specs:
        r = results[s["name"]]
        funcs.update(r.get("functions", []))
        stubs.update(r.get("stubs", []))
        tot_checks += r.get("checks", 0)
        tot_sat += r.get("sat_calls", 0)
        tot_symex += r.get("symex_s", 0)
        tot_solver += r.get("decision_s", 0) or r.get("solver_s", 0)
        nontrivial += r.get("oracle_class", 0)
        hs.append(
            {
                "harness": s["name"],
                "role": s.get("role", "decide"),
                "what": s.get("what", ""),
                "bounds": s.get("bounds", ""),
                "outcome": r.get("kind"),
                "detail": r.get("detail", ""),
                "cbmc_properties": r.get("checks", 0),
                "cbmc_properties_unreachable": r.get("unreachable", 0),
                "failed": [f["desc"] for f in r.get("failed", [])][:8],
                "covers": r.get("covers", {}),
                "program_steps": r.get("steps", 0),
                "sat_variables": r.get("vars", 0),
                "sat_clauses": r.get("clauses", 0),
                "sat_calls": r.get("sat_calls", 0),
                "symex_s": round(r.get("symex_s", 0), 2),
                "solver_s": round(r.get("decision_s", 0) or r.get("solver_s", 0), 3),
                "wall_s": r.get("wall_s", 0),
                "from_cache_same_source_hash": bool(r.get("cached")),
                "replay": r.get("replay"),
            }
        )
    meta = C.CHECKS[prop]
    ev = {
        "property_id": prop,
        "tier": tier,
        "seed": seed,
        "level": "model_checking",
        "coverage": {
            "evaluations": tot_checks,
            "distinct_nontrivial": nontrivial,
            "rule": "one evaluation = one CBMC property (oracle flag assertion, cover witness, unwinding assertion, "
            "or automatically generated safety check of the compiled code: overflow, bounds, pointer validity, unwrap/expect panics) decided by the SAT solver over ALL values of the "
            "harness's symbolic inputs; distinct_nontrivial counts only the oracle-class ones (per-property verdict assertions, cover witnesses, unwinding assertions), each distinct by harness and description. "
            "Schedules, where quantified, are case-split: one harness per schedule vector.",
            "samples": [
                {"harness": x["harness"], "what": x["what"], "bounds": x["bounds"], "outcome": x["outcome"]}
                for x in hs[:6]
            ],
            "exhaustive": False,
            "technique": "bounded model checking of the compiled rs-store sources: Kani 0.68 -> CBMC 6.11 -> CaDiCaL",
            "functions_encoded": sorted(funcs),
            "harnesses": hs,
            "queries_discharged": tot_sat,
            "symex_s_total": round(tot_symex, 2),
            "solver_s_total": round(tot_solver, 3),
            "source_hash": h,
            "stubs_in_force": sorted(stubs),
            "models_in_force": [
                "crossbeam::channel -> /verif/kani/shims/crossbeam (bounded FIFO, 4 slots)",
                "rusty_pool -> /verif/kani/shims/rusty_pool (task table, join recorded and drained by the harness)",
                "std::thread in store_impl.rs -> verif_kani::rt::thread (deferred closure, runs at join)",
            ],
            "bounds": meta.get("bounds", ""),
            "outside_claim": meta.get("outside", ""),
            "traces_validated_against_impl": sum(1 for x in hs if x.get("replay") and x["replay"].get("reproduced")),
            "known_findings_hit": [k.get("key") for k in known_hits],
            "notes": notes,
            "inconclusive": inconclusive,
        },
        "assumptions": meta.get("assumptions", []) + C.COMMON_ASSUMPTIONS,
        "wall_s": round(wall, 2),
        "violations": nviol,
    }
    os.makedirs(EVIDENCE_DIR, exist_ok=True)
    json.dump(ev, open(os.path.join(EVIDENCE_DIR, prop + ".json"), "w"), indent=1)


def main(argv):
    import argparse

    ap = argparse.ArgumentParser()
    ap.add_argument("prop", nargs="?")
    ap.add_argument("--tier", default=os.environ.get("VERIF_TIER", "quick"))
    ap.add_argument("--harness", action="append")
    ap.add_argument("--list", action="store_true")
    ap.add_argument("--replay")
    ap.add_argument("--timeout", type=int, default=900)
    ap.add_argument("--mem", type=int, default=12)
    ap.add_argument("--kani", action="append", default=[])
    a = ap.parse_args(argv)
    try:
        seed = int(os.environ.get("VERIF_SEED", "0"))
    except ValueError:
        seed = 0
    if a.list:
        C = load_checks()
        for p, d in sorted(C.CHECKS.items()):
            print(p, "quick:", [s["name"] for s in d.get("quick", [])], "thorough:", [s["name"] for s in d.get("thorough", [])])
        return 0
    if a.replay:
        return replay_file(a.replay)
    if a.harness:
        h = source_hash()
        st = stage(h)
        log_dir = os.path.join(SCRATCH, "logs", "adhoc")
        rc = 0
        specs = [{"name": n, "timeout_s": a.timeout, "mem_gb": a.mem, "kani": a.kani} for n in a.harness]
        with cf.ThreadPoolExecutor(max_workers=JOBS) as ex:
            for s, r in zip(specs, ex.map(lambda s: run_harness(st, h, s, (), False, log_dir), specs)):
                kind, detail = classify(r)
                print("%-46s %-12s wall=%.1fs symex=%.1fs solver=%.1fs steps=%d vars=%d clauses=%d %s" % (s["name"], kind, r.get("wall_s", 0), r.get("symex_s", 0), r.get("decision_s", 0), r.get("steps", 0), r.get("vars", 0), r.get("clauses", 0), "(cached)" if r.get("cached") else ""))
                print("    marks:", r.get("marks"))
                if detail:
                    print("    " + detail[:400])
                for f in r.get("failed", [])[:6]:
                    print("    FAILED: %s @ %s" % (f["desc"], f["loc"][-100:]))
                for c, stt in r.get("covers", {}).items():
                    if stt != "SATISFIED":
                        print("    COVER %s: %s" % (stt, c))
                if kind != "pass":
                    rc = 1
        print("logs:", log_dir)
        return rc
    if not a.prop:
        ap.print_usage()
        return 2
    if a.tier not in ("quick", "thorough"):
        a.tier = "quick"
    return decide(a.prop, a.tier, seed)


def replay_file(path):
    """re-run a saved counterexample natively against the current tree"""
    txt = open(path).read()
    m = re.search(r"// property (C\d+), harness (\S+), source hash", txt)
    if not m:
        log("not a replay file written by this checker")
        return 2
    prop, name = m.group(1), m.group(2)
    test = txt[txt.index("/// Test generated") :] if "/// Test generated" in txt else txt[txt.index("#[test]") :]
    fn = re.search(r"fn (kani_concrete_playback_\w+)\(", test).group(1)
    h = source_hash()
    st = stage(h)
    modfile = os.path.join(st, "harness", harness_file(name))
    src = open(modfile).read()
    open(modfile, "w").write(src + "\n" + test + "\n")
    try:
        with Slot() as tgt:
            env = dict(ENV)
            env["CARGO_TARGET_DIR"] = tgt + "-pb"
            p = subprocess.run(
                ["timeout", "-k", "10", "600", "cargo", "kani", "playback", "-Z", "concrete-playback", "--", fn, "--nocapture"],
                cwd=os.path.join(st, "repo"), env=env, stdout=subprocess.PIPE, stderr=subprocess.STDOUT, text=True, errors="replace",
            )
    finally:
        open(modfile, "w").write(src)
    out = p.stdout
    for l in out.splitlines():
        if l.startswith("ORACLE-FAILED") or "panicked at" in l or l.startswith("test "):
            print(l)
    if "test result: FAILED" in out or "panicked at" in out:
        print("VIOLATION property=%s replay=%s" % (prop, path))
        return 1
    print("replay did not fail on this tree")
    return 0

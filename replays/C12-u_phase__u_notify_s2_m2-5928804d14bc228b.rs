// property C12, harness u_phase::u_notify_s2_m2, source hash 5928804d14bc228b
// solver counterexample (Kani concrete playback); native re-execution:
//   dev: ran=True failed=True
//     ORACLE-FAILED C12: DoneAction from before_dispatch suppresses the subscribers
//     ORACLE-FAILED C12: DoneAction from before_dispatch suppresses the subscribers
//     ORACLE-FAILED C18: subscriber_notified counts the subscribers actually called
//     thread 'verif_kani::u_phase::kani_concrete_playback_u_notify_s2_m2_12842254379602760116' (13182) panicked at library/kani/src/lib.rs:57:1:
//     PROPERTY C12 violated (oracle flag set)
//   release: ran=False failed=False
// to re-run: /verif/bin/check --replay /verif/replays/C12-u_phase__u_notify_s2_m2-5928804d14bc228b.rs
/// Test generated for harness `verif_kani::u_phase::u_notify_s2_m2` 
///
/// Check for `assertion`: "PROPERTY C12 violated (oracle flag set)"
///
/// # Warning
///
/// Concrete playback tests combined with stubs or contracts is highly
/// experimental, and subject to change.
///
/// The original harness has stubs which are not applied to this test.
/// This may cause a mismatch of non-deterministic values if the stub
/// creates any non-deterministic value.
/// The execution path may also differ, which can be used to refine the stub
/// logic.

#[test]
fn kani_concrete_playback_u_notify_s2_m2_12842254379602760116() {
    let concrete_vals: Vec<Vec<u8>> = vec![
        // 255
        vec![255],
        // 255
        vec![255],
        // 3
        vec![3],
        // 3
        vec![3],
        // 1
        vec![1],
        // 3
        vec![3],
        // 3
        vec![3],
        // 0
        vec![0],
        // 255
        vec![255],
        // 255
        vec![255],
        // 255
        vec![255],
        // 12
        vec![12],
    ];
    kani::concrete_playback_run(concrete_vals, u_notify_s2_m2);
}

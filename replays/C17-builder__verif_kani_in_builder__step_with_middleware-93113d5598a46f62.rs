// property C17, harness @builder::verif_kani_in_builder::step_with_middleware, source hash 93113d5598a46f62
// solver counterexample (Kani concrete playback); native re-execution:
//   dev: ran=True failed=True
//     ORACLE-FAILED C17: setter leaves/sets the middleware list as the model says (with_* replaces, add_* appends)
//     ORACLE-FAILED C17: setter leaves/sets the middleware list as the model says (with_* replaces, add_* appends)
//     thread 'builder::verif_kani_in_builder::kani_concrete_playback_step_with_middleware_15616634870825085801' (20061) panicked at library/kani/src/lib.rs:57:1:
//     PROPERTY C17 violated (oracle flag set)
//   release: ran=False failed=False
// to re-run: /verif/bin/check --replay /verif/replays/C17-builder__verif_kani_in_builder__step_with_middleware-93113d5598a46f62.rs
/// Test generated for harness `builder::verif_kani_in_builder::step_with_middleware` 
///
/// Check for `assertion`: "PROPERTY C17 violated (oracle flag set)"
///
/// # Warning
///
/// Concrete playback tests combined with stubs or contracts is highly
/// experimental, and subject to change.
///
/// The original harness has stubs which are not applied to this test.
/// This may cause a mismatch of non-deterministic values if the stub
/// creates any non-deterministic value.
/// The execution path may also differ, which can be used to refine the stub
/// logic.

#[test]
fn kani_concrete_playback_step_with_middleware_15616634870825085801() {
    let concrete_vals: Vec<Vec<u8>> = vec![
        // 0
        vec![0],
        // 0
        vec![0],
        // 0
        vec![0],
        // 0ul
        vec![0, 0, 0, 0, 0, 0, 0, 0],
        // 0
        vec![0],
        // 0
        vec![0],
        // 0
        vec![0],
        // 0
        vec![0],
        // 0ul
        vec![0, 0, 0, 0, 0, 0, 0, 0],
        // 0
        vec![0],
        // 0
        vec![0],
        // 0
        vec![0],
        // 0
        vec![0],
        // 0ul
        vec![0, 0, 0, 0, 0, 0, 0, 0],
        // 0
        vec![0],
        // 17
        vec![17],
    ];
    kani::concrete_playback_run(concrete_vals, step_with_middleware);
}

// property C12, harness u_phase::u_effect_task_thunk_m1_done, source hash f8320c0b299ace9a
// solver counterexample (Kani concrete playback); native re-execution:
//   dev: ran=True failed=True
//     ORACLE-FAILED C11: one pool submission per effect the middlewares left
//     ORACLE-FAILED C12: effects removed in before_effect are not submitted, the ones left are
//     ORACLE-FAILED C11: the pool holds exactly the submitted effects
//     ORACLE-FAILED C11: every effect left by the middlewares is executed exactly once
//     ORACLE-FAILED C11: effects run on a worker, not in the reducer context
//     ORACLE-FAILED C11: every effect left by the middlewares is executed exactly once
//     ORACLE-FAILED C11: effects run on a worker, not in the reducer context
//     ORACLE-FAILED C11: a thunk receives a working dispatcher
//     ORACLE-FAILED C11: Effect::Action / a thunk's dispatcher enqueue their action on THIS store's dispatch queue, once each
//     thread 'verif_kani::u_phase::kani_concrete_playback_u_effect_task_thunk_m1_done_17041846971913575627' (18803) panicked at library/kani/src/lib.rs:57:1:
//     PROPERTY C12 violated (oracle flag set)
//   release: ran=False failed=False
// to re-run: /verif/bin/check --replay /verif/replays/C12-u_phase__u_effect_task_thunk_m1_done-f8320c0b299ace9a.rs
/// Test generated for harness `verif_kani::u_phase::u_effect_task_thunk_m1_done` 
///
/// Check for `assertion`: "PROPERTY C12 violated (oracle flag set)"
///
/// # Warning
///
/// Concrete playback tests combined with stubs or contracts is highly
/// experimental, and subject to change.
///
/// The original harness has stubs which are not applied to this test.
/// This may cause a mismatch of non-deterministic values if the stub
/// creates any non-deterministic value.
/// The execution path may also differ, which can be used to refine the stub
/// logic.

#[test]
fn kani_concrete_playback_u_effect_task_thunk_m1_done_17041846971913575627() {
    let concrete_vals: Vec<Vec<u8>> = vec![
        // 0
        vec![0],
        // 0
        vec![0],
        // 0
        vec![0],
        // 0
        vec![0],
        // 0
        vec![0],
        // 0
        vec![0],
        // 0
        vec![0],
        // 0
        vec![0],
        // 0
        vec![0],
        // 12
        vec![12],
    ];
    kani::concrete_playback_run(concrete_vals, u_effect_task_thunk_m1_done);
}

// property C02, harness u_chan::chan_race_oldest_cap2, source hash fdb0638eaf9eee93
// solver counterexample (Kani concrete playback); native re-execution:
//   dev: ran=True failed=False
//   release: ran=False failed=False
// to re-run: /verif/bin/check --replay /verif/replays/C02-u_chan__chan_race_oldest_cap2-fdb0638eaf9eee93.rs
/// Test generated for harness `verif_kani::u_chan::chan_race_oldest_cap2` 
///
/// Check for `assertion`: "PROPERTY C2 violated (oracle flag set)"
///
/// # Warning
///
/// Concrete playback tests combined with stubs or contracts is highly
/// experimental, and subject to change.
///
/// The original harness has stubs which are not applied to this test.
/// This may cause a mismatch of non-deterministic values if the stub
/// creates any non-deterministic value.
/// The execution path may also differ, which can be used to refine the stub
/// logic.

#[test]
fn kani_concrete_playback_chan_race_oldest_cap2_4379595965028988553() {
    let concrete_vals: Vec<Vec<u8>> = vec![
        // 3
        vec![3],
        // 1
        vec![1],
        // 1
        vec![1],
        // 2
        vec![2],
        // 2
        vec![2],
    ];
    kani::concrete_playback_run(concrete_vals, chan_race_oldest_cap2);
}

// property C06, harness u_chan::chan_step_cap1, source hash caf1f61eb6890e17
// solver counterexample (Kani concrete playback); native re-execution:
//   dev: ran=True failed=True
//     ORACLE-FAILED C06: DropOldest counts exactly the discarded (oldest) action
//     ORACLE-FAILED C18: action_dropped counts the discarded action once (DropOldest)
//     thread 'verif_kani::u_chan::kani_concrete_playback_chan_step_cap1_591344048874383780' (26445) panicked at library/kani/src/lib.rs:57:1:
//     PROPERTY C6 violated (oracle flag set)
//   release: ran=False failed=False
// to re-run: /verif/bin/check --replay /verif/replays/C06-u_chan__chan_step_cap1-caf1f61eb6890e17.rs
/// Test generated for harness `verif_kani::u_chan::chan_step_cap1` 
///
/// Check for `assertion`: "PROPERTY C6 violated (oracle flag set)"
///
/// # Warning
///
/// Concrete playback tests combined with stubs or contracts is highly
/// experimental, and subject to change.
///
/// The original harness has stubs which are not applied to this test.
/// This may cause a mismatch of non-deterministic values if the stub
/// creates any non-deterministic value.
/// The execution path may also differ, which can be used to refine the stub
/// logic.

#[test]
fn kani_concrete_playback_chan_step_cap1_591344048874383780() {
    let concrete_vals: Vec<Vec<u8>> = vec![
        // 1
        vec![1],
        // 1ul
        vec![1, 0, 0, 0, 0, 0, 0, 0],
        // 0
        vec![0],
        // 255
        vec![255],
        // 6
        vec![6],
    ];
    kani::concrete_playback_run(concrete_vals, chan_step_cap1);
}

// property C16, harness u_selector::u_selector_n3, source hash 52c82ace462911b0
// solver counterexample (Kani concrete playback); native re-execution:
//   dev: ran=True failed=True
//     ORACLE-FAILED C16: selector callback fired iff selected value changed
//     ORACLE-FAILED C16: number of selector callbacks = length of de-duplicated stream
//     thread 'verif_kani::u_selector::kani_concrete_playback_u_selector_n3_6502426215763847365' (15299) panicked at library/kani/src/lib.rs:57:1:
//     PROPERTY C16 violated (oracle flag set)
//   release: ran=False failed=False
// to re-run: /verif/bin/check --replay /verif/replays/C16-u_selector__u_selector_n3-52c82ace462911b0.rs
/// Test generated for harness `verif_kani::u_selector::u_selector_n3` 
///
/// Check for `assertion`: "PROPERTY C16 violated (oracle flag set)"
///
/// # Warning
///
/// Concrete playback tests combined with stubs or contracts is highly
/// experimental, and subject to change.
///
/// The original harness has stubs which are not applied to this test.
/// This may cause a mismatch of non-deterministic values if the stub
/// creates any non-deterministic value.
/// The execution path may also differ, which can be used to refine the stub
/// logic.

#[test]
fn kani_concrete_playback_u_selector_n3_6502426215763847365() {
    let concrete_vals: Vec<Vec<u8>> = vec![
        // 252
        vec![252],
        // 255
        vec![255],
        // 255
        vec![255],
        // 252
        vec![252],
        // 255
        vec![255],
        // 0
        vec![0],
        // 252
        vec![252],
        // 255
        vec![255],
        // 0
        vec![0],
        // 16
        vec![16],
    ];
    kani::concrete_playback_run(concrete_vals, u_selector_n3);
}

// property C08, harness g_glue::g_fold_k2, source hash 728856198488ccbf
// solver counterexample (Kani concrete playback); native re-execution:
//   dev: ran=True failed=True
//     ORACLE-FAILED C08: the new state is published (get_state) before the effect phase and the notification start
//     ORACLE-FAILED C01: whatever the chain returns becomes the state, Dispatch and Keep alike
//     ORACLE-FAILED C08: while subscribers are notified get_state() already returns this action's state
//     thread 'verif_kani::g_glue::kani_concrete_playback_g_fold_k2_3529977826313851306' (3267) panicked at library/kani/src/lib.rs:57:1:
//     PROPERTY C8 violated (oracle flag set)
//   release: ran=False failed=False
// to re-run: /verif/bin/check --replay /verif/replays/C08-g_glue__g_fold_k2-728856198488ccbf.rs
/// Test generated for harness `verif_kani::g_glue::g_fold_k2` 
///
/// Check for `assertion`: "PROPERTY C8 violated (oracle flag set)"
///
/// # Warning
///
/// Concrete playback tests combined with stubs or contracts is highly
/// experimental, and subject to change.
///
/// The original harness has stubs which are not applied to this test.
/// This may cause a mismatch of non-deterministic values if the stub
/// creates any non-deterministic value.
/// The execution path may also differ, which can be used to refine the stub
/// logic.

#[test]
fn kani_concrete_playback_g_fold_k2_3529977826313851306() {
    let concrete_vals: Vec<Vec<u8>> = vec![
        // 1
        vec![1],
        // 0
        vec![0],
        // 1
        vec![1],
        // 0
        vec![0],
        // 0
        vec![0],
        // 0
        vec![0],
        // 0
        vec![0],
        // 0
        vec![0],
        // 0
        vec![0],
        // 255
        vec![255],
        // 255
        vec![255],
        // 8
        vec![8],
    ];
    kani::concrete_playback_run(concrete_vals, g_fold_k2);
}

// property C06, harness u_chan::chan_race_oldest_cap1, source hash caf1f61eb6890e17
// solver counterexample (Kani concrete playback); native re-execution:
//   dev: ran=True failed=False
//   release: ran=False failed=False
// to re-run: /verif/bin/check --replay /verif/replays/C06-u_chan__chan_race_oldest_cap1-caf1f61eb6890e17.rs
/// Test generated for harness `verif_kani::u_chan::chan_race_oldest_cap1` 
///
/// Check for `assertion`: "PROPERTY C6 violated (oracle flag set)"
///
/// # Warning
///
/// Concrete playback tests combined with stubs or contracts is highly
/// experimental, and subject to change.
///
/// The original harness has stubs which are not applied to this test.
/// This may cause a mismatch of non-deterministic values if the stub
/// creates any non-deterministic value.
/// The execution path may also differ, which can be used to refine the stub
/// logic.

#[test]
fn kani_concrete_playback_chan_race_oldest_cap1_1125929278002888733() {
    let concrete_vals: Vec<Vec<u8>> = vec![
        // 255
        vec![255],
        // 255
        vec![255],
        // 1
        vec![1],
        // 6
        vec![6],
    ];
    kani::concrete_playback_run(concrete_vals, chan_race_oldest_cap1);
}

// property C01, harness g_glue::g_fold_k2, source hash 2f2941e7474f8198
// solver counterexample (Kani concrete playback); native re-execution:
//   dev: ran=True failed=True
//     ORACLE-FAILED C01: the effect phase gets the state the chain returned and the same action
//     ORACLE-FAILED C07: effect phase follows the reduce phase
//     ORACLE-FAILED C01: the effect phase gets the state the chain returned and the same action
//     ORACLE-FAILED C07: effect phase follows the reduce phase
//     thread 'verif_kani::g_glue::kani_concrete_playback_g_fold_k2_3709130996363831560' (1229) panicked at library/kani/src/lib.rs:57:1:
//     PROPERTY C1 violated (oracle flag set)
//   release: ran=False failed=False
// to re-run: /verif/bin/check --replay /verif/replays/C01-g_glue__g_fold_k2-2f2941e7474f8198.rs
/// Test generated for harness `verif_kani::g_glue::g_fold_k2` 
///
/// Check for `assertion`: "PROPERTY C1 violated (oracle flag set)"
///
/// # Warning
///
/// Concrete playback tests combined with stubs or contracts is highly
/// experimental, and subject to change.
///
/// The original harness has stubs which are not applied to this test.
/// This may cause a mismatch of non-deterministic values if the stub
/// creates any non-deterministic value.
/// The execution path may also differ, which can be used to refine the stub
/// logic.

#[test]
fn kani_concrete_playback_g_fold_k2_3709130996363831560() {
    let concrete_vals: Vec<Vec<u8>> = vec![
        // 0
        vec![0],
        // 0
        vec![0],
        // 0
        vec![0],
        // 0
        vec![0],
        // 0
        vec![0],
        // 0
        vec![0],
        // 0
        vec![0],
        // 0
        vec![0],
        // 255
        vec![255],
        // 255
        vec![255],
        // 255
        vec![255],
        // 1
        vec![1],
    ];
    kani::concrete_playback_run(concrete_vals, g_fold_k2);
}

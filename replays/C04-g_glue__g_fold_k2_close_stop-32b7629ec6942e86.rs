// property C04, harness g_glue::g_fold_k2_close_stop, source hash 32b7629ec6942e86
// solver counterexample (Kani concrete playback); native re-execution:
//   dev: ran=True failed=True
//     ORACLE-FAILED C04: stop() takes the pool and joins it
//     thread 'verif_kani::g_glue::kani_concrete_playback_g_fold_k2_close_stop_14887531074676059504' (7442) panicked at library/kani/src/lib.rs:57:1:
//     PROPERTY C4 violated (oracle flag set)
//   release: ran=False failed=False
// to re-run: /verif/bin/check --replay /verif/replays/C04-g_glue__g_fold_k2_close_stop-32b7629ec6942e86.rs
/// Test generated for harness `verif_kani::g_glue::g_fold_k2_close_stop` 
///
/// Check for `assertion`: "PROPERTY C4 violated (oracle flag set)"
///
/// # Warning
///
/// Concrete playback tests combined with stubs or contracts is highly
/// experimental, and subject to change.
///
/// The original harness has stubs which are not applied to this test.
/// This may cause a mismatch of non-deterministic values if the stub
/// creates any non-deterministic value.
/// The execution path may also differ, which can be used to refine the stub
/// logic.

#[test]
fn kani_concrete_playback_g_fold_k2_close_stop_14887531074676059504() {
    let concrete_vals: Vec<Vec<u8>> = vec![
        // 0
        vec![0],
        // 0
        vec![0],
        // 0
        vec![0],
        // 127
        vec![127],
        // 0
        vec![0],
        // 1
        vec![1],
        // 7
        vec![7],
        // 0
        vec![0],
        // 255
        vec![255],
        // 0
        vec![0],
        // 255
        vec![255],
        // 4
        vec![4],
    ];
    kani::concrete_playback_run(concrete_vals, g_fold_k2_close_stop);
}

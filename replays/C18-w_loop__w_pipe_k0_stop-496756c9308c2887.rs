// property C18, harness w_loop::w_pipe_k0_stop, source hash 496756c9308c2887
// solver counterexample (Kani concrete playback); native re-execution:
//   dev: ran=True failed=True
//     ORACLE-FAILED C18: error_occurred counts the dispatches StoreImpl::dispatch rejected after close (inherent + Store trait entry points)
//     thread 'verif_kani::w_loop::kani_concrete_playback_w_pipe_k0_stop_17583772308442849634' (22487) panicked at library/kani/src/lib.rs:57:1:
//     PROPERTY C18 violated (oracle flag set)
//   release: ran=False failed=False
// to re-run: /verif/bin/check --replay /verif/replays/C18-w_loop__w_pipe_k0_stop-496756c9308c2887.rs
/// Test generated for harness `verif_kani::w_loop::w_pipe_k0_stop` 
///
/// Check for `assertion`: "PROPERTY C18 violated (oracle flag set)"
///
/// # Warning
///
/// Concrete playback tests combined with stubs or contracts is highly
/// experimental, and subject to change.
///
/// The original harness has stubs which are not applied to this test.
/// This may cause a mismatch of non-deterministic values if the stub
/// creates any non-deterministic value.
/// The execution path may also differ, which can be used to refine the stub
/// logic.

#[test]
fn kani_concrete_playback_w_pipe_k0_stop_17583772308442849634() {
    let concrete_vals: Vec<Vec<u8>> = vec![
        // 0
        vec![0],
        // 0
        vec![0],
        // 0
        vec![0],
        // 18
        vec![18],
    ];
    kani::concrete_playback_run(concrete_vals, w_pipe_k0_stop);
}
